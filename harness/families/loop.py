"""Family `loop`: the retry loop and the policy wrapper, model vs implementation.

For every generated case the real library is driven by an on-demand oracle (harness/loopenv.py),
the recorded answers are replayed through the Lean model by the compiled driver, and
  * the two exchange logs, results, timelines and final component states are compared
    (per property: only the projection that property talks about), and
  * every Lean monitor `Cxx.ok` is evaluated on the IMPLEMENTATION's own log.
"""
from __future__ import annotations

import json
import random
import sys
from collections import Counter
from dataclasses import dataclass, field

from ..common import run_driver, wall
from ..loopenv import CLASSES, LoopCfg, run_case, CaseRun, StopDriver
from ..oracle import DfsOracle, Profile, RandomOracle, ReplayOracle, next_prefix
from ..loopenv import Ans

LOOP_PROPS = ["C01", "C02", "C03", "C04", "C05", "C07", "C08", "C09", "C10", "C11", "C12", "C13",
              "C14", "C15", "C16"]

# request kinds each property's correspondence is about (its projection of the exchange log)
PROJ = {
    "C01": {"op", "classify", "resultClassify"},
    "C02": {"op", "sleeper"},
    "C03": {"op", "sleeper", "budgetConsume", "abortIf", "sleepHandler", "strategy", "result"},
    "C04": {"op", "result:call", "resultClassify"},   # which attempt is "classified as success"
    "C05": {"strategy", "sleeper", "sleepHandler", "beforeSleep", "result"},
    "C07": {"breakerAllow", "op", "result"},
    "C08": {"breakerAllow", "breakerSuccess", "breakerFailure", "breakerCancel"},
    "C09": {"breakerAllow", "breakerSuccess", "breakerFailure", "breakerCancel", "result"},
    "C10": {"budgetConsume", "state"},
    "C11": {"op", "result:execute"},
    "C12": {"op", "strategy", "sleeper", "sleepHandler", "beforeSleep", "metric", "log", "budgetConsume",
            "breakerAllow", "breakerSuccess", "breakerFailure", "breakerCancel", "abortIf",
            "resultClassify", "stratRecordFailure", "stratRecordSuccess", "result", "timeline"},
    "C13": {"abortIf", "op", "sleeper", "result"},
    "C14": {"metric", "log", "timeline", "result"},
    "C15": {"op", "sleeper", "budgetConsume", "breakerAllow", "breakerSuccess", "breakerFailure",
            "breakerCancel", "result", "metric", "log", "beforeSleep", "timeline"},
    "C16": {"sleepHandler", "beforeSleep", "sleeper", "op", "result"},
}


# --------------------------------------------------------------------------- generation

def _spec(rng: random.Random, kind: str) -> str:
    """a strategy callable: the plain `(ctx)` / `(attempt, klass, prev_sleep_s)` signature, or the same
    required parameters with defaulted extras, `*args`, defaulted kw-only parameters, `**kwargs`
    (`_normalize_strategy` must decide from the REQUIRED parameters only; the model decides with
    `normalizeSig`)"""
    if rng.random() < 0.7:
        return kind
    req = 1 if kind == "ctx" else 3
    return (f"sig={req}.{rng.choice([0, 1, 2, 2, 3])}.{int(rng.random() < 0.25)}.0."
            f"{rng.choice([0, 0, 1])}.{int(rng.random() < 0.25)}")


def gen_cfg(rng: random.Random, focus: str | None = None) -> tuple[LoopCfg, Profile]:
    c = LoopCfg()
    prof = Profile()
    c.max_attempts = rng.choice([0, 1, 1, 2, 2, 3, 3, 3, 4, 5])
    c.deadline = rng.choice([0, 1, 5, 20, 20, 60, 60, 200, 1000])
    c.max_unknown = rng.choice([None, 0, 1, 2, 2, 3])
    for k in CLASSES:
        if rng.random() < 0.2:
            c.per_class[k] = rng.choice([0, 1, 1, 2, 3])
    c.strat_default = rng.choice([_spec(rng, "ctx"), _spec(rng, "ctx"), _spec(rng, "legacy"), None])
    for k in CLASSES:
        if rng.random() < (0.25 if c.strat_default else 0.6):
            c.strat_for[k] = _spec(rng, rng.choice(["ctx", "legacy"]))
    if c.strat_default is None and rng.random() < 0.12:
        c.strat_for = {}                 # `strategies={}` and no default: NO_STRATEGY for every class
    keys = (["default"] if c.strat_default else []) + [f"cls:{k}" for k in c.strat_for]
    c.strat_records = [k for k in keys if rng.random() < 0.25]
    if rng.random() < 0.4:
        mx, win = rng.choice([0, 1, 1, 2, 3]), rng.choice([1, 5, 30, 100])
        c.budget = (mx, win)
    c.operation = rng.choice([None, None, "", "fetch", "op_x"])
    flags = set()
    for f, p in [("result_classifier", 0.4), ("p_handler", 0.2), ("p_before_sleep", 0.25),
                 ("p_sleeper", 0.35), ("p_attempt_start", 0.15), ("p_attempt_end", 0.2),
                 ("metric", 0.7), ("log", 0.5), ("abort_if", 0.5), ("c_handler", 0.3),
                 ("c_before_sleep", 0.25), ("c_sleeper", 0.5), ("c_attempt_start", 0.15),
                 ("c_attempt_end", 0.2), ("timeline", 0.3), ("async", 0.4), ("attempt_timeout", 0.12)]:
        if rng.random() < p:
            flags.add(f)
    c.kind = rng.choice(["Retry", "Retry", "Policy", "Policy", "Policy", "RetryPolicy", "decorator"])
    if c.kind == "Policy":
        if rng.random() < 0.15:
            flags.add("no_retry")
        if rng.random() < 0.75:
            trip = [k for k in CLASSES if rng.random() < 0.4]
            cls = {k: rng.choice([1, 2]) for k in CLASSES if rng.random() < 0.15}
            c.breaker = {"threshold": rng.choice([1, 1, 2, 3]), "window": rng.choice([1, 10, 100]),
                         "recovery": rng.choice([1, 5, 50]), "trip": trip, "cls": cls}
    if c.kind == "decorator":
        flags -= {"p_attempt_start", "p_attempt_end"}
    # (RetryPolicy's constructor takes no attempt hooks: they are assigned through the wrapper afterwards —
    # `RetryPolicy.__setattr__` must forward them to the Retry component; loopenv.build)
    if c.kind == "decorator":
        flags -= {"c_handler", "c_before_sleep", "c_sleeper", "timeline"}
        if not c.operation:
            c.operation = "fn"
    if "no_retry" in flags:
        flags -= {"timeline"}
    c.flags = flags
    c.via_context = c.kind != "decorator" and rng.random() < 0.2
    c.init_now = rng.choice([0, 0, 7, 1000])
    # class weights aimed at the configured caps
    w = {k: 1.0 for k in CLASSES}
    for k in ("PERMANENT", "AUTH", "PERMISSION"):
        w[k] = 0.25
    hot = rng.sample(CLASSES, 2)
    for k in hot:
        w[k] += 4.0
    if c.per_class:
        for k in c.per_class:
            w[k] += 2.0
    w["UNKNOWN"] += 1.5
    if rng.random() < 0.12:
        # "alternating" profile: two classes take turns (UNKNOWN or a capped class with another retryable one),
        # enough attempts, room in the budget, far deadline — what a cap that silently became a *streak* limit,
        # or a counter charged to the wrong class, needs in order to show
        a = rng.choice(["UNKNOWN", "UNKNOWN"] + [k for k in c.per_class] if c.per_class else ["UNKNOWN"])
        b = rng.choice([k for k in ("TRANSIENT", "RATE_LIMIT", "SERVER_ERROR", "CONCURRENCY") if k != a])
        w = {k: 0.02 for k in CLASSES}
        w[a] = w[b] = 5.0
        c.max_attempts = rng.choice([4, 5, 6, 7])
        c.deadline = 1000
        c.max_unknown = rng.choice([0, 1, 1, 2])
        if a != "UNKNOWN":
            c.per_class[a] = rng.choice([1, 1, 2])
        c.per_class.pop(b, None)
        if c.strat_default is None:
            c.strat_default = "ctx"
        if c.budget is not None and rng.random() < 0.7:
            c.budget = None
            c.init_budget = []
        prof.p_success = 0.05
        prof.faults = "none"
        prof.p_abort = 0.0
        prof.p_defer = prof.p_habort = prof.p_other = 0.0
    prof.class_weights = w
    prof.p_success = rng.choice([0.05, 0.2, 0.35])
    prof.faults = rng.choice(["none", "none", "hooks", "all"])
    prof.quiet = rng.random() < 0.6
    prof.honest_sleeper = rng.random() < 0.6
    prof.p_abort = rng.choice([0.0, 0.03, 0.1])
    return c, prof


def gen_init_components(rng: random.Random, c: LoopCfg) -> None:
    if c.budget is not None:
        mx, win = c.budget
        n = rng.choice([0, 0, max(mx - 1, 0), mx, mx])
        # grants at assorted ages, including exactly on the window boundary
        ages = sorted((rng.choice([0, 1, win - 1, win, win + 1, win // 2]) for _ in range(n)), reverse=True)
        c.init_budget = [max(c.init_now - a, 0) for a in ages]
        c.init_budget.sort()
    if c.breaker is not None and rng.random() < 0.5:
        b = c.breaker
        st = rng.choice(["closed", "closed", "open", "half_open"])
        ib: dict = {"state": st, "opened_at": None, "probe": False, "failures": [], "class_failures": {}}
        if st == "closed":
            n = rng.choice([0, max(b["threshold"] - 1, 0)])
            ib["failures"] = sorted(max(c.init_now - rng.choice([0, 1, b["window"] - 1, b["window"]]), 0)
                                    for _ in range(n))
        elif st == "open":
            age = rng.choice([0, b["recovery"] - 1, b["recovery"], b["recovery"] + 1])
            ib["opened_at"] = max(c.init_now - max(age, 0), 0)
        else:
            ib["opened_at"] = max(c.init_now - b["recovery"], 0)
            ib["probe"] = rng.random() < 0.5
        c.init_breaker = ib


def gen_script(rng: random.Random, c: LoopCfg) -> list:
    n = rng.choice([1, 1, 1, 2, 3])
    script: list = []
    for i in range(n):
        if i > 0 and rng.random() < 0.6:
            base = 5
            if c.breaker is not None:
                base = c.breaker["recovery"]
            elif c.budget is not None:
                base = c.budget[1]
            script.append(("advance", rng.choice([0, 1, max(base - 1, 0), base, base + 1])))
        which = "call" if c.kind == "decorator" else rng.choice(["call", "execute"])
        script.append((which,))
    return script


# --------------------------------------------------------------------------- comparison

def parse_driver_output(out: str) -> dict[str, dict]:
    cases: dict[str, dict] = {}
    cur = None
    for line in out.splitlines():
        if line.startswith("case "):
            cur = {"m": [], "mr": {}, "mtl": [], "mon": [], "mstate": None, "bad": None}
            cases[line.split()[1]] = cur
        elif cur is None:
            continue
        elif line.startswith("m "):
            _, k, rest = line.split(" ", 2)
            cur["m"].append((int(k), rest))
        elif line.startswith("mr "):
            _, k, rest = line.split(" ", 2)
            cur["mr"][int(k)] = rest
        elif line.startswith("mtl "):
            _, k, rest = line.split(" ", 2)
            cur["mtl"].append((int(k), rest))
        elif line.startswith("mon "):
            t = line.split()
            cur["mon"].append({"pid": t[1], "name": t[2], "k": int(t[3]),
                               "model": t[4].split("=")[1], "impl": t[5].split("=")[1]})
        elif line.startswith("mstate "):
            cur["mstate"] = line[len("mstate "):]
        elif line.startswith("bad "):
            cur["bad"] = line
    return cases


def kind_of(req_line: str) -> str:
    return req_line.split(" ", 1)[0]


@dataclass
class CaseVerdict:
    agree: bool
    first_div: str | None = None
    div_kinds: set = field(default_factory=set)       # request kinds / "result" / "timeline" / "state"
    monitor_fail: list = field(default_factory=list)  # (pid, name, step)
    model_monitor_fail: list = field(default_factory=list)


def compare(cr: CaseRun, d: dict) -> CaseVerdict:
    v = CaseVerdict(agree=True)
    if d.get("bad"):
        v.agree = False
        v.first_div = d["bad"]
        v.div_kinds.add("protocol")
    nsteps = len(cr.steps)
    for k in range(nsteps):
        impl = [f"{req} => {ans}" for (s, req, ans) in cr.exchanges if s == k]
        model = [line for (s, line) in d["m"] if s == k]
        if impl != model:
            v.agree = False
            # which request kinds differ between the two logs (projection-wise)
            kinds = {kind_of(x) for x in impl} | {kind_of(x) for x in model}
            for kd in kinds:
                if [x for x in impl if kind_of(x) == kd] != [x for x in model if kind_of(x) == kd]:
                    v.div_kinds.add(kd)
            if v.first_div is None:
                for i in range(max(len(impl), len(model))):
                    a = impl[i] if i < len(impl) else "<end>"
                    b = model[i] if i < len(model) else "<end>"
                    if a != b:
                        v.first_div = f"step {k} exchange {i}: impl `{a}` vs model `{b}`"
                        break
        ir, mr = cr.steps[k].res, d["mr"].get(k)
        if ir != mr:
            v.agree = False
            v.div_kinds.add("result")
            v.div_kinds.add("result:execute" if cr.steps[k].entry.endswith("execute") else "result:call")
            if v.first_div is None:
                v.first_div = f"step {k} result: impl `{ir}` vs model `{mr}`"
        itl, mtl = cr.steps[k].tl, [line for (s, line) in d["mtl"] if s == k]
        if itl != mtl:
            v.agree = False
            v.div_kinds.add("timeline")
            if v.first_div is None:
                v.first_div = f"step {k} timeline: impl {itl} vs model {mtl}"
        if cr.steps[k].notes.get("tb_ok") is False:
            v.monitor_fail.append(("C04", "traceback", k))
        res_k = cr.steps[k].res
        if res_k.startswith("raise unexpected:") and not res_k.startswith("raise unexpected:construction"):
            # the entry point surfaced an exception that is neither an object the operation / a callback raised, nor a
            # cancellation kind, nor one of the library's own documented errors: "never … a substitute" (C04, call());
            # execute() "does not raise for failures" (C11)
            v.monitor_fail.append(("C11" if cr.steps[k].entry.endswith("execute") else "C04", "substitute_exception", k))
    ms = d.get("mstate") or ""
    ms_core = " ".join(t for t in ms.split() if not t.startswith("unused="))
    if ms_core != cr.final_state:
        v.agree = False
        v.div_kinds.add("state")
        if v.first_div is None:
            v.first_div = f"final state: impl `{cr.final_state}` vs model `{ms_core}`"
    if "unused=0" not in ms.split():
        v.agree = False
        v.div_kinds.add("protocol")
        if v.first_div is None:
            v.first_div = f"model left answers unused: {ms}"
    for m in d["mon"]:
        if m["impl"] == "0":
            v.monitor_fail.append((m["pid"], m["name"], m["k"]))
        if m["model"] == "0":
            v.model_monitor_fail.append((m["pid"], m["name"], m["k"]))
    return v


def touches(pid: str, v: CaseVerdict) -> bool:
    """does the divergence lie inside property `pid`'s projection?"""
    proj = PROJ.get(pid, set())
    if "protocol" in v.div_kinds:
        return True
    return bool(proj & v.div_kinds)


# --------------------------------------------------------------------------- signatures / stats

def trace_signature(cr: CaseRun) -> str:
    """canonical shape of a run: entry points + request kinds + result kinds (no ids/durations)"""
    parts = []
    for k, st in enumerate(cr.steps):
        kinds = [kind_of(req) + ("!" if ans.startswith("raise") else "")
                 for (s, req, ans) in cr.exchanges if s == k]
        parts.append(st.entry + ":" + ",".join(kinds) + ">" + " ".join(st.res.split()[:4]))
    return "|".join(parts)


def nontrivial(cr: CaseRun) -> bool:
    """at least one failed attempt somewhere in the case"""
    return any(req.startswith("op ") and ans.startswith("raise") or req.startswith("resultClassify") and ans.startswith("klass")
               for (_, req, ans) in cr.exchanges)


def stop_reason_of(res: str) -> str:
    t = res.split()
    if t[0] == "outcome":
        return "ok" if t[1] == "1" else t[3]
    if t[0] == "ret":
        return "ret"
    tok = t[1]
    if tok.startswith("libExhausted"):
        return "exh:" + tok.split(":")[1]
    return "raise:" + tok.split(":")[0]


# --------------------------------------------------------------------------- shrinking

def replay_case(case_id: str, cfg: LoopCfg, script: list, answers: list[str], wall_seed: int,
                deliver_throw: bool) -> CaseRun | None:
    try:
        return run_case(case_id, cfg, script, ReplayOracle(answers), wall_seed, deliver_throw)
    except StopDriver:
        return None


def still_fails(cr: CaseRun | None, pred) -> bool:
    if cr is None:
        return False
    out = run_driver("loop", cr.text)
    d = parse_driver_output(out).get(cr.text.split()[1])
    if d is None:
        return False
    return pred(compare(cr, d))


def shrink(cr: CaseRun, answers: list[str], wall_seed: int, deliver_throw: bool, pred,
           budget: int = 60) -> tuple[CaseRun, list[str]]:
    """Greedy: shorter script, raises -> returns, zero durations; keep while `pred` still holds."""
    best, best_ans = cr, answers
    tries = 0
    # drop trailing steps
    script = list(cr.script)
    while len(script) > 1 and tries < budget:
        tries += 1
        cand = script[:-1]
        c2 = replay_case("shrunk", cr.cfg, cand, best_ans, wall_seed, deliver_throw)
        if c2 is not None and still_fails(c2, pred):
            script, best = cand, c2
        else:
            break
    # simplify answers one at a time
    i = 0
    while i < len(best_ans) and tries < budget:
        a = best_ans[i].split()
        cands = []
        if a[-1] != "0":
            cands.append(" ".join(a[:-1] + ["0"]))
        if a[0] == "raise" and not a[1].startswith("ordinary"):
            cands.append(f"raise ordinary:900{i}:UNKNOWN {a[-1]}")
        for cnd in cands:
            tries += 1
            trial = best_ans[:i] + [cnd] + best_ans[i + 1:]
            c2 = replay_case("shrunk", cr.cfg, script, trial, wall_seed, deliver_throw)
            if c2 is not None and still_fails(c2, pred):
                best, best_ans = c2, trial
                break
        i += 1
    return best, best_ans


# --------------------------------------------------------------------------- C12: entry-point twins

ATTEMPT_HOOK_FLAGS = {"p_attempt_start", "p_attempt_end", "c_attempt_start", "c_attempt_end"}
NOT_C12 = ("classify", "attemptStart", "attemptEnd")          # cf. Twin.keepC12


def ref_of_tok(tok: str) -> str:
    """cf. Exn.ref: how the exception named by a result token appears as `last_exception`"""
    p = tok.split(":")
    short = {"ordinary": "o", "abort": "a", "exhausted": "x", "circuitOpen": "c"}
    return short[p[0]] + p[1] if p[0] in short else p[0]


def deliver_related(rc: str, re_: str) -> bool:
    """`Twin.deliverRelated` on the wire form of results: call() delivers by return / raise what
    execute() delivers as a RetryOutcome."""
    c, e = rc.split(), re_.split()
    if e[0] == "raise":
        return c == e
    if e[0] != "outcome":
        return False
    ok, value, stop, attempts, last_class, last_exc, last_result, cause, _elapsed, next_sleep = e[1:11]
    if c[0] == "ret":
        return ok == "1" and value == c[1]
    if c[0] != "raise" or ok != "0":
        return False
    tok = c[1]
    k = tok.split(":")[0]
    if k == "libExhausted":
        _, f_stop, f_att, f_class, f_exc, f_res, f_ns = tok.split(":")
        return (stop == f_stop and attempts == f_att and last_class == f_class and next_sleep == f_ns
                and last_result == f_res and (f_exc == "-" or last_exc == f_exc))
    if k in ("libAbort", "abort"):
        return stop == "ABORTED"
    if k == "libCircuitOpen":
        return attempts == "0" and last_exc == "libCircuitOpen"
    if k == "libRuntimeError":
        return stop == "MAX_ATTEMPTS_GLOBAL" and attempts == "0"
    return cause == "exception" and last_exc == ref_of_tok(tok)


DEBUG_RANOUT = None


class MemoClassifierOracle(ReplayOracle):
    """Replay, with a classifier that is a function of the exception: a classification asked again
    for the same exception is answered as before without consuming an answer."""

    def __init__(self, answers: list[str]) -> None:
        super().__init__(answers)
        self.memo: dict = {}

    def choose(self, kind: str, info: dict):
        if kind == "classify":
            req = info.get("req")
            if req in self.memo:
                return self.memo[req]
            a = super().choose(kind, info)
            self.memo[req] = a
            return a
        return super().choose(kind, info)


def f11_witness() -> dict | None:
    """Known finding F11, deterministic witness: Policy(retry=Retry(max_attempts=0), circuit_breaker=…):
    call() raises RuntimeError and records the breaker failure under the class the user's classifier gives
    to that RuntimeError; execute() returns MAX_ATTEMPTS_GLOBAL and records UNKNOWN."""
    c = LoopCfg()
    c.max_attempts, c.kind, c.strat_default = 0, "Policy", "ctx"
    c.breaker = {"threshold": 3, "window": 100, "recovery": 5, "trip": ["TRANSIENT", "UNKNOWN"], "cls": {}}
    a = run_case("f11_call", c, [("call",)], ReplayOracle(["klass TRANSIENT - 0"]), 0, False)
    b = run_case("f11_execute", c, [("execute",)], ReplayOracle([]), 0, False)
    ra = [(r, x) for (_, r, x) in a.exchanges if kind_of(r).startswith("breaker")]
    rb = [(r, x) for (_, r, x) in b.exchanges if kind_of(r).startswith("breaker")]
    if ra != rb:
        return {"property": "C12", "kind": "violation", "sig": "C12/max-attempts-0/breaker-class",
                "detail": f"max_attempts=0: Policy.call breaker interactions {ra}; Policy.execute {rb}",
                "replay": a.text + b.text, "meta": {}}
    return None


def f12_witness() -> dict | None:
    """Known finding F12, deterministic witness: the operation raises a CircuitOpenError of its own (a nested
    policy).  Policy.call's `_handle_exception_call` returns early for CircuitOpenError, so the admitted call
    is settled as a cancel; Policy.execute records a breaker failure."""
    c = LoopCfg()
    c.max_attempts, c.kind, c.strat_default = 1, "Policy", "ctx"
    c.breaker = {"threshold": 3, "window": 100, "recovery": 5, "trip": ["TRANSIENT", "UNKNOWN"], "cls": {}}
    ans = ["raise circuitOpen:1 0", "klass TRANSIENT - 0", "klass TRANSIENT - 0"]
    a = run_case("f12_call", c, [("call",)], ReplayOracle(ans), 0, False)
    b = run_case("f12_execute", c, [("execute",)], ReplayOracle(ans), 0, False)
    ra = [(r, x) for (_, r, x) in a.exchanges if kind_of(r).startswith("breaker")]
    rb = [(r, x) for (_, r, x) in b.exchanges if kind_of(r).startswith("breaker")]
    if ra != rb:
        return {"property": "C12", "kind": "violation", "sig": "C12/nested-circuit-open/breaker-record",
                "detail": f"operation raises CircuitOpenError: Policy.call breaker interactions {ra}; "
                          f"Policy.execute {rb}", "replay": a.text + b.text, "meta": {}}
    return None


def f13_witness() -> dict | None:
    """Known finding F13, deterministic witness: a retry-less Policy whose operation raises a
    RetryExhaustedError of its own (a nested policy).  Policy.call records the breaker failure under
    `exc.last_class`; Policy.execute (`_execute_without_retry`) under `default_classifier(exc)` = UNKNOWN."""
    c = LoopCfg()
    c.kind, c.flags = "Policy", {"no_retry"}
    c.breaker = {"threshold": 3, "window": 100, "recovery": 5, "trip": ["TRANSIENT", "UNKNOWN"], "cls": {}}
    ans = ["raise exhausted:1:TRANSIENT 0"]
    a = run_case("f13_call", c, [("call",)], ReplayOracle(ans), 0, False)
    b = run_case("f13_execute", c, [("execute",)], ReplayOracle(ans), 0, False)
    ra = [(r, x) for (_, r, x) in a.exchanges if kind_of(r).startswith("breaker")]
    rb = [(r, x) for (_, r, x) in b.exchanges if kind_of(r).startswith("breaker")]
    if ra != rb:
        return {"property": "C12", "kind": "violation", "sig": "C12/nested-exhausted-no-retry/breaker-class",
                "detail": f"retry-less Policy, operation raises RetryExhaustedError(last_class=TRANSIENT): "
                          f"Policy.call breaker interactions {ra}; Policy.execute {rb}",
                "replay": a.text + b.text, "meta": {}}
    return None


def same_entry_variants(cfg: LoopCfg, script: list, exchanges) -> list[tuple[str, LoopCfg]]:
    """other entry points that map to the SAME model entry and configuration (so: identical runs)"""
    import copy
    out = []
    cancelled = any(a.startswith("raise cancelled") for (_, _, a) in exchanges)
    if not cancelled:                        # only `except asyncio.CancelledError` tells the twins apart
        c = copy.copy(cfg)
        c.flags = set(cfg.flags) ^ {"async"}
        out.append(("async" if "async" in c.flags else "sync", c))
    if cfg.kind != "decorator":
        c = copy.copy(cfg)
        c.via_context = not cfg.via_context
        out.append(("context" if c.via_context else "no-context", c))
    plain = cfg.breaker is None and not cfg.has("no_retry")
    p_hooks = bool(cfg.flags & {"p_attempt_start", "p_attempt_end"})     # (the decorator fixes them at decoration time)
    if cfg.kind in ("Policy", "RetryPolicy", "decorator") and plain:
        for kind in ("Policy", "RetryPolicy", "decorator"):
            if kind == cfg.kind:
                continue
            if p_hooks and "decorator" in (kind, cfg.kind):
                continue
            if kind == "decorator" and (cfg.flags & {"c_handler", "c_before_sleep", "c_sleeper", "timeline"}
                                        or not cfg.operation or cfg.via_context
                                        or any(st[0] == "execute" for st in script)):
                continue
            c = copy.copy(cfg)
            c.kind = kind
            if kind == "decorator":
                c.via_context = False
            out.append((kind, c))
    return out


def c12_env(cfg: LoopCfg, exchanges) -> bool:
    """cf. Twin.c12Env: no attempt hooks; the abort predicate does not raise; callbacks other than the
    operation do not raise AbortRetryError / RetryExhaustedError / CircuitOpenError themselves"""
    if cfg.flags & ATTEMPT_HOOK_FLAGS:
        return False
    for (_, req, ans) in exchanges:
        k = kind_of(req)
        if not ans.startswith("raise ") or k == "op":
            continue
        if k == "abortIf":
            return False
        if ans.split()[1].split(":")[0] in ("abort", "exhausted", "circuitOpen", "libAbort", "libExhausted",
                                            "libCircuitOpen"):
            return False
        if k in ("metric", "log") and ans.split()[1] in ("cancelled", "keyboardInterrupt", "systemExit",
                                                          "generatorExit") and " circuit_" in req:
            # a breaker-event hook raising a BaseException-only kind AFTER the record: Policy.call's
            # `except (KeyboardInterrupt, SystemExit)` arm records a cancel on top, execute() does not
            # (DESIGN §6.2 observation; outside "the same behaviour of the callbacks" for hooks)
            return False
    return True


def entry_twins(cr: CaseRun, answers: list[str], meta: dict, rng: random.Random, counters: dict) -> list[dict]:
    """C12 on the implementation itself: the same answers through another entry point.
    (a) an entry point with the same model image (sync/async, Policy/RetryPolicy/@retry, context manager):
        everything must be identical;  (b) call() <-> execute() on the first call of the script: same
        exchanges (up to classifier calls and attempt hooks) and deliver-related results."""
    fails = []
    cid = cr.text.split()[1]
    vs = same_entry_variants(cr.cfg, cr.script, cr.exchanges)
    # a case whose attempt timeout FIRES costs 0.3 s of real time per hanging operation on the sync path: its twins
    # are run on the async path only (virtual event-loop clock)
    fires = cr.cfg.has("attempt_timeout") and ((meta["wall_seed"] >> 14) & 7) == 7
    if fires:
        vs = [v for v in vs if v[1].has("async")]
    if vs:
        name, vcfg = rng.choice(vs + [v for v in vs if v[0] in ("sync", "async")])   # the hand-maintained twins
        counters["c12"]["same-entry:" + name] += 1
        tw = replay_case(cid + "_ep", vcfg, cr.script, answers, meta["wall_seed"], False)
        if tw is None:
            fails.append(("C12/twin-consumes-more-answers/" + name, f"{vcfg.kind} ran out of answers"))
        else:
            a = [(s, r, x) for (s, r, x) in cr.exchanges]
            b = [(s, r, x) for (s, r, x) in tw.exchanges]
            ra = [(s.res, s.tl, s.notes.get("tb_ok")) for s in cr.steps]
            rb = [(s.res, s.tl, s.notes.get("tb_ok")) for s in tw.steps]      # tb_ok: the surfaced exception object is untouched
            if a != b:
                i = next((i for i, (x, y) in enumerate(zip(a, b)) if x != y), min(len(a), len(b)))
                fails.append((f"C12/exchanges-differ/{name}",
                              f"{cr.cfg.kind}{'/async' if cr.cfg.has('async') else ''} vs {name}: exchange {i}: "
                              f"{a[i] if i < len(a) else None} vs {b[i] if i < len(b) else None}"))
            elif ra != rb:
                fails.append((f"C12/results-differ/{name}", f"{ra} vs {rb}"))
            elif cr.final_state != tw.final_state:
                fails.append((f"C12/state-differs/{name}", f"{cr.final_state} vs {tw.final_state}"))
    # (b) call <-> execute, first call of the script only
    first = next((i for i, st in enumerate(cr.script) if st[0] in ("call", "execute")), None)
    ex0 = [(r, x) for (s, r, x) in cr.exchanges if s == 0]
    policy_level = cr.cfg.kind != "Retry"
    by_ref: dict = {}
    for (r, x) in ex0:
        if kind_of(r) == "classify":
            by_ref.setdefault(r, set()).add(x)
    # "the same behaviour of the callbacks": Policy.call asks the classifier once more (for the breaker)
    # than Policy.execute, so at policy level the classifier must be a function of the exception, and
    # take no time (the extra call would otherwise shift the breaker's clock)
    functional = all(len(v) == 1 and next(iter(v)).endswith(" 0") for v in by_ref.values())
    if fires and not cr.cfg.has("async"):
        first = None
    if first is not None and cr.cfg.kind != "decorator" and c12_env(cr.cfg, [(0, r, x) for (r, x) in ex0]):
        if policy_level and not functional:
            counters["c12"]["flip:skipped-classifier-not-a-function"] += 1
        elif policy_level and cr.cfg.max_attempts == 0:
            # known finding F11 (see f11_witness): with max_attempts=0 Policy.call has the classifier classify
            # the library's own RuntimeError for the breaker, Policy.execute records UNKNOWN
            counters["c12"]["flip:skipped-max-attempts-0 (F11)"] += 1
        else:
            import copy
            fcfg = copy.copy(cr.cfg)
            fcfg.flags = set(cr.cfg.flags) - {"timeline"}
            which = cr.script[first][0]
            other = "execute" if which == "call" else "call"
            script = list(cr.script[:first]) + [(other,)]
            internal = ("budgetConsume", "breakerAllow", "breakerSuccess", "breakerFailure", "breakerCancel")
            seen_cls: set = set()
            ans0 = []
            for (r, x) in ex0:
                if kind_of(r) in internal:
                    continue
                if policy_level and kind_of(r) == "classify":
                    if r in seen_cls:
                        continue             # answered from the memo in the twin
                    seen_cls.add(r)
                ans0.append(x)
            oracle = MemoClassifierOracle(ans0) if policy_level else ReplayOracle(ans0)
            try:
                tw = run_case(cid + "_flip", fcfg, script, oracle, meta["wall_seed"], False)
            except StopDriver:
                tw = None
            counters["c12"]["flip:" + which] += 1
            if tw is not None and c12_env(fcfg, tw.exchanges):
                pa = [(r, x) for (r, x) in ex0 if kind_of(r) not in NOT_C12]
                pb = [(r, x) for (s, r, x) in tw.exchanges if kind_of(r) not in NOT_C12]
                rc, re_ = (cr.steps[0].res, tw.steps[0].res) if which == "call" else (tw.steps[0].res, cr.steps[0].res)
                if pa != pb:
                    i = next((i for i, (x, y) in enumerate(zip(pa, pb)) if x != y), min(len(pa), len(pb)))
                    nested = rc.startswith("raise circuitOpen:") and i < len(pa) and i < len(pb) \
                        and {kind_of(pa[i][0]), kind_of(pb[i][0])} == {"breakerCancel", "breakerFailure"}
                    nested_x = rc.startswith("raise exhausted:") and cr.cfg.has("no_retry") and i < len(pa) \
                        and i < len(pb) and kind_of(pa[i][0]) == kind_of(pb[i][0]) == "breakerFailure"
                    fails.append(("C12/nested-circuit-open/breaker-record" if nested else
                                  "C12/nested-exhausted-no-retry/breaker-class" if nested_x else
                                  f"C12/call-execute/exchanges/{cr.cfg.kind}",
                                  f"{which}: {pa[i] if i < len(pa) else None}  {other}: {pb[i] if i < len(pb) else None}"))
                elif not deliver_related(rc, re_):
                    fails.append((f"C12/call-execute/result/{cr.cfg.kind}", f"call: {rc}  execute: {re_}"))
            elif tw is None:
                counters["c12"]["flip:ran-out"] += 1
                if DEBUG_RANOUT is not None:
                    DEBUG_RANOUT.append((which, cr.text))
    return [{"property": "C12", "kind": "violation", "sig": sig,
             "detail": "entry points disagree on the same answers: " + det, "replay": cr.text, "meta": meta}
            for (sig, det) in fails]


# --------------------------------------------------------------------------- C15: silent-hook twin

HOOK_KINDS = ("metric", "log", "beforeSleep")
EXC_KINDS = ("ordinary", "abort", "exhausted", "circuitOpen")     # subclasses of Exception


_last_twin: CaseRun | None = None


def hook_fault_positions(cr: CaseRun) -> list[int]:
    """indices (into the oracle answer list) of hook answers that raise an Exception subclass"""
    pos, i = [], 0
    for (_, req, ans) in cr.exchanges:
        if kind_of(req) in ("budgetConsume", "breakerAllow", "breakerSuccess", "breakerFailure", "breakerCancel"):
            continue                      # component interactions consume no oracle answer
        if kind_of(req) in HOOK_KINDS and ans.startswith("raise ") and ans.split()[1].split(":")[0] in EXC_KINDS:
            pos.append(i)
        i += 1
    return pos


def silent_twin(cr: CaseRun, answers: list[str], meta: dict) -> dict | None:
    """Re-run the case on the SAME answers with silent hooks (every Exception raised by an observability
    hook becomes a normal return of the same duration — `World.silent` / `Ans.silenced` in the model);
    the run must be identical up to those answers (C15; theorem hooks_cannot_alter_control_flow).
    The twin run is kept in `_last_twin` so that the caller can also put it through the model."""
    global _last_twin
    _last_twin = None
    pos = hook_fault_positions(cr)
    if not pos:
        return None
    import copy
    tcfg = copy.copy(cr.cfg)
    tcfg.silent_hooks = True
    twin = replay_case(cr.text.split()[1] + "_twin", tcfg, cr.script, answers, meta["wall_seed"],
                       meta["deliver_throw"])
    if twin is None:
        return {"sig": "C15/twin-consumes-more-answers", "detail": "silent-hook twin ran out of answers"}
    _last_twin = twin
    a = [(s, r, x) for (s, r, x) in cr.exchanges]
    b = [(s, r, x) for (s, r, x) in twin.exchanges]
    if len(a) != len(b):
        return {"sig": "C15/different-exchanges", "detail": f"{len(a)} exchanges with faulty hooks, {len(b)} with silent hooks"}
    for (x, y) in zip(a, b):
        if x[:2] != y[:2] or (x[2] != y[2] and not (kind_of(x[1]) in HOOK_KINDS and x[2].startswith("raise"))):
            return {"sig": f"C15/diverges-at/{kind_of(x[1])}", "detail": f"faulty: `{x[1]} => {x[2]}`  silent: `{y[1]} => {y[2]}`"}
    ra, rb = [s.res for s in cr.steps], [s.res for s in twin.steps]
    if ra != rb:
        return {"sig": "C15/different-result", "detail": f"faulty hooks: {ra}  silent hooks: {rb}"}
    ta, tb = [s.tl for s in cr.steps], [s.tl for s in twin.steps]
    if ta != tb:
        return {"sig": "C15/different-timeline", "detail": f"faulty hooks: {ta}  silent hooks: {tb}"}
    if cr.final_state != twin.final_state:
        return {"sig": "C15/different-component-state", "detail": f"{cr.final_state} vs {twin.final_state}"}
    return {}


# --------------------------------------------------------------------------- main entry

@dataclass
class LoopResult:
    evaluations: int = 0
    steps: int = 0
    distinct: set = field(default_factory=set)
    samples: list = field(default_factory=list)
    dist: dict = field(default_factory=dict)
    failures: list = field(default_factory=list)
    exhaustive: bool = False
    dfs_runs: int = 0


def run_batch(cases: list[tuple[CaseRun, dict]], res: LoopResult, counters: dict, want_props: list[str]) -> None:
    """cases: (CaseRun, meta) — pipe through the driver in one go and judge each."""
    text = "".join(cr.text for cr, _ in cases)
    out = run_driver("loop", text)
    parsed = parse_driver_output(out)
    for cr, meta in cases:
        cid = cr.text.split()[1]
        d = parsed.get(cid)
        res.evaluations += 1
        res.steps += len(cr.steps)
        if d is None:
            res.failures.append({"property": "*", "kind": "divergence", "sig": "driver/no-output",
                                 "detail": f"driver produced no block for {cid}", "replay": cr.text})
            continue
        v = compare(cr, d)
        if nontrivial(cr):
            res.distinct.add(trace_signature(cr))
        for st in cr.steps:
            counters["entry"][st.entry] += 1
            counters["stop"][stop_reason_of(st.res)] += 1
        counters["kind"][cr.cfg.kind + ("/async" if cr.cfg.has("async") else "")] += 1
        for (_, req, ans) in cr.exchanges:
            counters["req"][kind_of(req)] += 1
            if ans.startswith("raise"):
                counters["raise_at"][kind_of(req) + ":" + ans.split()[1].split(":")[0]] += 1
            rk = kind_of(req)
            if rk == "strategy" and ans.startswith("delay"):
                rt, tok = req.split(), ans.split()[1]
                rem = rt[7] if rt[2] == "ctx" else "*"
                if tok in ("nan", "inf", "-inf"):
                    counters["boundary"]["strategy=" + tok] += 1
                elif rem != "*":
                    d, r = int(tok), int(rem)
                    counters["boundary"]["strategy " + ("<0" if d < 0 else "=0" if d == 0 else "<remaining" if d < r
                                                         else "=remaining" if d == r else ">remaining")] += 1
            elif rk == "sleeper" and ans.startswith("unit"):
                d, dur = int(req.split()[2]), int(ans.split()[1])
                counters["boundary"]["sleeper " + ("returns early" if dur < d else "exact" if dur == d else "overshoots")] += 1
            elif rk == "budgetConsume":
                counters["boundary"]["budget " + ("granted" if ans.endswith("1") else "refused")] += 1
            elif rk == "breakerAllow":
                counters["boundary"]["breaker " + " ".join(ans.split()[1:3])] += 1
        if len(res.samples) < 3 and nontrivial(cr):
            res.samples.append({"cfg": cr.cfg.cfg_line(), "script": [list(s) for s in cr.script],
                                "exchanges": [f"{r} => {a}" for (_, r, a) in cr.exchanges][:40],
                                "results": [s.res for s in cr.steps]})
        if cr.post_probe is not None:
            counters["boundary"]["post-call probe " + cr.post_probe.split(":")[0]] += 1
            if cr.post_probe != "admitted":
                res.failures.append({"property": "C08", "kind": "violation", "sig": "C08/phantom-probe/" + cr.post_probe,
                                     "detail": "no call is outstanding, recovery_timeout_s has elapsed, yet the next "
                                               "call is not admitted: " + cr.post_probe + "; breaker " + cr.final_state,
                                     "replay": cr.text, "meta": meta})
        if v.model_monitor_fail:
            # the model itself violates a monitor: a theorem is false or the monitor is wrong
            for (pid, name, k) in v.model_monitor_fail:
                res.failures.append({"property": pid, "kind": "model-monitor", "sig": f"{pid}/{name}/model",
                                     "detail": f"monitor {name} false on the MODEL's own run (step {k})",
                                     "replay": cr.text})
        if v.monitor_fail:
            for (pid, name, k) in v.monitor_fail:
                res.failures.append({"property": pid, "kind": "violation",
                                     "sig": f"{pid}/{name}/{cr.steps[k].entry}/{stop_reason_of(cr.steps[k].res)}",
                                     "detail": f"monitor {name} is false on the implementation's run (step {k}); "
                                               f"first divergence: {v.first_div}",
                                     "replay": cr.text, "meta": meta})
        if not v.agree:
            res.failures.append({"property": "*", "kind": "divergence",
                                 "sig": "loop/" + ",".join(sorted(v.div_kinds)),
                                 "div_kinds": sorted(v.div_kinds),
                                 "detail": v.first_div or "?", "replay": cr.text, "meta": meta})


# --------------------------------------------------------------------------- small-scope exhaustive DFS

def dfs_alphabet(kind: str, info: dict, o) -> list:
    rem = max(info.get("remaining", 0), 0)
    if kind == "abortIf":
        return [Ans("bool", False, dur=0), Ans("bool", True, dur=0)]
    if kind == "op":
        return [lambda: Ans("raise", f"ordinary:{o.fresh()}:UNKNOWN", dur=0),
                lambda: Ans("value", o.fresh(), dur=0),
                lambda: Ans("raise", f"ordinary:{o.fresh()}:UNKNOWN", dur=rem + 1),
                Ans("raise", "cancelled", dur=0)]
    if kind == "classify":
        return [Ans("klass", "TRANSIENT", None, dur=0), Ans("klass", "UNKNOWN", None, dur=0),
                Ans("klass", "PERMANENT", None, dur=0)]
    if kind == "resultClassify":
        return [Ans("noFailure", dur=0), Ans("klass", "TRANSIENT", None, dur=0)]
    if kind == "strategy":
        r = info.get("remaining_s", rem)
        return [Ans("delay", "1", dur=0), Ans("delay", "nan", dur=0), Ans("delay", str(r + 1), dur=0)]
    if kind == "sleepHandler":
        return [Ans("decision", "sleep", dur=0), Ans("decision", "defer", dur=0), Ans("decision", "abort", dur=0)]
    if kind == "sleeper":
        d = info.get("d", 0)
        return [Ans("unit", dur=d), Ans("unit", dur=d + 100)]
    if kind in ("metric", "log", "beforeSleep"):
        return [Ans("unit", dur=0), lambda: Ans("raise", f"ordinary:{o.fresh()}:UNKNOWN", dur=0)] if info.get("hook_faults") else [Ans("unit", dur=0)]
    return [Ans("unit", dur=0)]


def dfs_configs() -> list[tuple[str, LoopCfg, list]]:
    out = []

    def mk(name, **kw):
        c = LoopCfg()
        c.max_attempts = kw.pop("max_attempts", 2)
        c.deadline = kw.pop("deadline", 10)
        c.max_unknown = kw.pop("max_unknown", 1)
        c.per_class = kw.pop("per_class", {})
        c.strat_default = kw.pop("strat_default", "ctx")
        c.budget = kw.pop("budget", None)
        c.breaker = kw.pop("breaker", None)
        c.flags = set(kw.pop("flags", []))
        c.kind = kw.pop("kind", "Retry")
        c.operation = "op"
        script = kw.pop("script", [("call",)])
        out.append((name, c, script))

    mk("retry-call-abort", flags=["abort_if", "metric"])
    mk("retry-exec-abort", flags=["abort_if", "metric"], script=[("execute",)])
    mk("retry-call-handler", flags=["c_handler", "metric", "c_sleeper"], max_attempts=3)
    mk("retry-exec-handler-result", flags=["c_handler", "log", "result_classifier", "timeline"], script=[("execute",)])
    mk("retry-call-budget", flags=["metric", "result_classifier"], budget=(1, 5), max_attempts=3, per_class={"TRANSIENT": 1})
    mk("policy-call-breaker", kind="Policy", flags=["metric"],
       breaker={"threshold": 1, "window": 10, "recovery": 5, "trip": ["TRANSIENT", "UNKNOWN"], "cls": {}},
       script=[("call",), ("advance", 5), ("call",)])
    mk("policy-exec-breaker-async", kind="Policy", flags=["log", "async", "abort_if"],
       breaker={"threshold": 1, "window": 10, "recovery": 5, "trip": ["UNKNOWN"], "cls": {}},
       script=[("execute",), ("advance", 5), ("execute",)])
    mk("policy-noretry", kind="Policy", flags=["no_retry", "metric", "c_attempt_end", "abort_if"],
       breaker={"threshold": 1, "window": 10, "recovery": 5, "trip": ["UNKNOWN"], "cls": {}},
       script=[("call",), ("advance", 5), ("execute",)])
    mk("retry-call-hookfaults", flags=["metric", "log", "p_before_sleep"], max_attempts=2)
    mk("policy-noretry-exec-starthook", kind="Policy", flags=["no_retry", "log", "c_attempt_start", "abort_if"],
       breaker={"threshold": 1, "window": 10, "recovery": 5, "trip": ["UNKNOWN"], "cls": {}},
       script=[("execute",), ("advance", 5), ("call",)])
    mk("retry-exec-attempt-timeout", flags=["attempt_timeout", "metric", "abort_if"], script=[("execute",)])
    mk("retry-call-falsy-recording-strategy", flags=["metric", "c_sleeper"], max_attempts=3)
    out[-1][1].strat_for = {"TRANSIENT": "ctx"}
    out[-1][1].strat_records = ["cls:TRANSIENT"]
    return out


def run_dfs(res: LoopResult, counters: dict, max_runs_per_cfg: int) -> dict:
    """Enumerate ALL oracle choice sequences over the reduced alphabet for a few small configurations."""
    report = {}
    for name, cfg, script in dfs_configs():
        prefix: list[int] | None = []
        n = 0
        batch: list = []
        complete = True
        while prefix is not None:
            o = DfsOracle(prefix, dfs_alphabet)
            o_choose = o.choose

            def choose(kind, info, _c=o_choose, _n=name):
                info["hook_faults"] = _n.endswith("hookfaults")
                return _c(kind, info)
            o.choose = choose  # type: ignore[method-assign]
            cr = run_case(f"dfs_{name}_{n}", cfg, script, o, 0, cfg.has("async"))
            batch.append((cr, {"wall_seed": 0, "deliver_throw": cfg.has("async"), "dfs": name}))
            n += 1
            if len(batch) >= 500:
                run_batch(batch, res, counters, LOOP_PROPS)
                batch = []
            prefix = next_prefix(o.path)
            if n >= max_runs_per_cfg:
                complete = prefix is None
                break
        if batch:
            run_batch(batch, res, counters, LOOP_PROPS)
        report[name] = {"runs": n, "complete": complete}
    return report


def run(tier: str, seed: int, props: list[str] | None = None, n_cases: int | None = None, scale: float = 1.0) -> dict:
    t0 = wall()
    rng = random.Random(seed * 7919 + 11)
    res = LoopResult()
    counters = {k: Counter() for k in ("entry", "stop", "kind", "req", "raise_at", "twin", "boundary", "c12")}
    n = n_cases if n_cases is not None else int((20000 if tier == "quick" else 250000) * min(scale, 2.0))
    batch: list = []
    for i in range(n):
        cfg, prof = gen_cfg(rng)
        gen_init_components(rng, cfg)
        script = gen_script(rng, cfg)
        oracle = RandomOracle(random.Random(rng.getrandbits(48)), prof)
        wall_seed = rng.getrandbits(32)
        deliver_throw = cfg.has("async") and rng.random() < 0.5
        forced_timeout = i % 100 == 7 and not cfg.has("no_retry")
        if forced_timeout:
            # a case whose attempt timeout FIRES (loopenv: Env._hangs): seven in eight on the async path, where the
            # event loop's clock is virtual; the sync path costs 0.3 s of real time per hanging operation
            cfg.flags.add("attempt_timeout")
            if (i // 100) % 8 != 0:
                cfg.flags.add("async")
            wall_seed |= (7 << 14) | (1 << 17)
            deliver_throw = False
        oracle_info = {"result_classifier": cfg.has("result_classifier")}
        _orig = oracle.choose

        def choose(kind, info, _o=_orig, _x=oracle_info):
            info.update(_x)
            return _o(kind, info)
        oracle.choose = choose  # type: ignore[method-assign]
        # re-entrancy: the first invocation of each call's operation makes a complete nested call through the
        # same policy object (only without shared components, on which the outer call legitimately depends)
        reentrant = cfg.breaker is None and cfg.budget is None and rng.random() < 0.12 and not forced_timeout
        cr = run_case(f"s{seed}_{i}", cfg, script, oracle, wall_seed, deliver_throw, reentrant=reentrant)
        if cr.stalled:
            counters["entry"]["dropped:real-time-stall"] += 1
            continue
        if forced_timeout:
            counters["entry"]["attempt-timeout-fires:" + ("async" if cfg.has("async") else "sync")] += 1
        meta = {"wall_seed": wall_seed, "deliver_throw": deliver_throw}
        batch.append((cr, meta))
        for ncr in cr.nested:
            counters["entry"]["nested-call"] += 1
            batch.append((ncr, {"wall_seed": wall_seed, "deliver_throw": False}))
        answers = [ln[2:] for ln in cr.text.splitlines() if ln.startswith("a ")]
        if "C12" in (props or LOOP_PROPS):
            faulty = any(x.startswith("raise ") and kind_of(r) != "op" for (_, r, x) in cr.exchanges)
            if rng.random() < (1.0 if faulty else 0.35):
                res.failures += entry_twins(cr, answers, meta, rng, counters)
        tw = silent_twin(cr, answers, meta)
        if tw is not None:
            counters["twin"]["compared"] += 1
            if _last_twin is not None:
                batch.append((_last_twin, meta))     # model with `silent := true` vs implementation with silent hooks
            if tw:
                res.failures.append({"property": "C15", "kind": "violation", "sig": tw["sig"],
                                     "detail": "run with faulty hooks differs from the run with silent hooks: "
                                               + tw["detail"], "replay": cr.text, "meta": meta})
        if len(batch) >= 400:
            run_batch(batch, res, counters, props or LOOP_PROPS)
            batch = []
    if batch:
        run_batch(batch, res, counters, props or LOOP_PROPS)
    if "C12" in (props or LOOP_PROPS):
        for w in (f11_witness(), f12_witness(), f13_witness()):
            if w is not None:
                res.failures.append(w)
    dfs_report = {}
    if (tier == "thorough" or scale > 1.0) and n_cases is None:
        dfs_report = run_dfs(res, counters, max_runs_per_cfg=60000)
    return {
        "family": "loop",
        "dfs": dfs_report,
        "evaluations": res.evaluations,
        "calls": res.steps,
        "distinct_nontrivial": len(res.distinct),
        "rule": "one case = random configuration x script of 1-3 calls on one policy object x on-demand "
                "boundary-biased oracle answers; distinct = distinct (entry points, sequence of request "
                "kinds with raise marks, result shape) signatures; non-trivial = at least one failed attempt",
        "samples": res.samples,
        "distribution": {k: dict(v.most_common(40)) for k, v in counters.items()},
        "exhaustive": bool(dfs_report) and all(v["complete"] for v in dfs_report.values()),
        "failures": res.failures,
        "wall_s": round(wall() - t0, 2),
    }


if __name__ == "__main__":
    tier = sys.argv[1] if len(sys.argv) > 1 else "quick"
    seed = int(sys.argv[2]) if len(sys.argv) > 2 else 0
    n = int(sys.argv[3]) if len(sys.argv) > 3 else None
    r = run(tier, seed, n_cases=n)
    fails = r.pop("failures")
    print(json.dumps(r, indent=1)[:6000])
    print("FAILURES:", len(fails))
    seen = Counter(f["sig"] for f in fails)
    print(seen.most_common(30))
    for f in fails[:3]:
        print("-----", f["property"], f["kind"], f["sig"])
        print(f["detail"])
        print(f["replay"][:3000])
