"""Correspondence family `classifiers` (property C19).

Builds REAL exception objects (dynamically created classes, arbitrary names, marker bases,
`status` / `status_code` / `code` / `sqlstate` attributes and `args` holding generated built-in
values), calls the real classifiers of the redress working tree on them and compares every answer
with the Lean model (`driver classify`, encoding documented in lean/Driver/Classify.lean).

Verdicts
  * a Python exception escaping a classifier, or a return value that is not an `ErrorClass`
      -> violation ("never raise" / "returns an ErrorClass")
  * implementation answer != the class promised by the Lean-side documented table
    (`Classify.Spec.expected`, third token of the driver's answer)      -> violation
  * implementation answer != model answer, table promises nothing       -> divergence

The record sent to the driver is *read back from the constructed object* (`isinstance`,
`type(e).__name__`, `getattr(e, name, None)`, `e.args`), so it describes the object the classifier
really saw (e.g. OSError subclasses rewrite their args).

Stand-alone:  cd /verif && PYTHONPATH=/repo/src /venv/bin/python -m harness.families.classifiers quick 0
"""
from __future__ import annotations

import importlib.util
import json
import math
import random
import sys
from collections import Counter

from harness.common import Shim, ensure_repo_on_path, run_driver

try:  # honour PYTHONPATH (mutation testing points it at a copy); fall back to REDRESS_REPO
    import redress  # noqa: F401
except ImportError:  # pragma: no cover
    ensure_repo_on_path()
    import redress  # noqa: F401

from redress.classify import default_classifier, strict_classifier
from redress.errors import (ConcurrencyError, ErrorClass, PermanentError, RateLimitError,
                            ServerError)
from redress.extras import aiohttp as x_aiohttp
from redress.extras import boto3 as x_boto3
from redress.extras import grpc as x_grpc
from redress.extras import redis as x_redis
from redress.extras import urllib3 as x_urllib3
from redress.extras.http import http_classifier
from redress.extras.pyodbc import pyodbc_classifier
from redress.extras.sqlstate import sqlstate_classifier

PROPERTY = "C19"

MARKERS = {"TimeoutError": TimeoutError, "PermanentError": PermanentError,
           "RateLimitError": RateLimitError, "ConcurrencyError": ConcurrencyError,
           "ServerError": ServerError}
MARKER_ORDER = ["TimeoutError", "PermanentError", "RateLimitError", "ConcurrencyError",
                "ServerError"]

# builtin exception types a transport raises (no marker, no status): only the name heuristic applies
BUILTIN_BASES = {"ConnectionError": ConnectionError, "BrokenPipeError": BrokenPipeError,
                 "ConnectionResetError": ConnectionResetError, "OSError": OSError}
ALL_BASES = {**MARKERS, **BUILTIN_BASES}
_CLS_CACHE: dict = {}

OPTIONAL = {  # lib token -> (module object, classifier, top-level package the module imports)
    "aiohttp": (x_aiohttp, x_aiohttp.aiohttp_classifier, "aiohttp"),
    "grpc": (x_grpc, x_grpc.grpc_classifier, "grpc"),
    "boto3": (x_boto3, x_boto3.boto3_classifier, "botocore"),
    "redis": (x_redis, x_redis.redis_classifier, "redis"),
    "urllib3": (x_urllib3, x_urllib3.urllib3_classifier, "urllib3"),
}
CORE = {"default": default_classifier, "strict": strict_classifier, "http": http_classifier,
        "sqlstate": sqlstate_classifier, "pyodbc": pyodbc_classifier}

ABSENT = object()          # attribute not set at all (model: same as None)
INT_STR_LIMIT = 10 ** 4300


class Falsy:
    """a plain object whose class defines __bool__ -> False"""

    def __bool__(self) -> bool:
        return False


class Plain:
    pass


# ----------------------------------------------------------------------------------------------
# encoding (Python object -> driver token); None result = outside the ASCII model
# ----------------------------------------------------------------------------------------------

def _hex_ascii(s: str):
    if not all(ord(c) < 128 for c in s):
        return None
    return s.encode("ascii").hex()


def enc_val(v):
    """token, kind"""
    if v is None or v is ABSENT:
        return "N", "none"
    if v is True:
        return "T", "bool"
    if v is False:
        return "F", "bool"
    if isinstance(v, int) and type(v) is not bool:
        # (int SUBCLASSES — http.HTTPStatus members, a plain `class MyInt(int)` — are integers: same token)
        v = int(v)
        if abs(v) >= INT_STR_LIMIT:
            # decimal conversion is refused by CPython; build it from hex via divmod-free path
            return "i" + _big_dec(v), "int-over-4300-digits"
        kind = "int-huge" if abs(v) >= 2 ** 31 else "int"
        return "i" + str(v), kind
    if type(v) is float:
        if math.isnan(v):
            return "fn", "float-nan"
        if math.isinf(v):
            return ("fp" if v > 0 else "fm"), "float-inf"
        return "fx" + repr(v).encode("ascii").hex(), ("float-zero" if v == 0 else "float")
    if type(v) is str:
        h = _hex_ascii(v)
        if h is None:
            return None, "str-nonascii"
        return "s" + h, ("str-empty" if v == "" else "str")
    if type(v) is bytes:
        return f"b{len(v)}", ("bytes-empty" if not v else "bytes")
    if type(v) in (list, tuple, dict, set, frozenset):
        try:
            str(v)
            ok = True
        except Exception:     # ValueError (int->str digit limit inside), RecursionError (deep nesting)
            ok = False
        return ("c" if ok else "C") + str(len(v)), ("container-empty" if not v else
                                                     ("container" if ok else "container-str-raises"))
    if type(v) in (Plain, Falsy, object):
        return ("o1" if bool(v) else "o0"), "object"
    return None, "other"


def _big_dec(v: int) -> str:
    """decimal digits of an int beyond the int->str limit (chunked, no limit involved)"""
    neg = v < 0
    v = abs(v)
    chunk = 10 ** 4000
    parts = []
    while v:
        v, r = divmod(v, chunk)
        parts.append(r)
    out = str(parts[-1]) + "".join(str(p).rjust(4000, "0") for p in reversed(parts[:-1]))
    return ("-" if neg else "") + out


def build(spec):
    """spec = {bases: [marker names], tname, attrs: {name: value|ABSENT}, args: [...], ctor: bool}
    -> a real exception object"""
    key = (spec["tname"], tuple(spec["bases"]))
    cls = _CLS_CACHE.get(key)          # the same TYPE recurs with different instances (per-type caches)
    if cls is None:
        bases = tuple(ALL_BASES[b] for b in spec["bases"]) or (Exception,)
        try:
            cls = type(spec["tname"], bases, {})
        except TypeError:              # inconsistent MRO among builtin bases: keep the markers only
            bases = tuple(MARKERS[b] for b in spec["bases"] if b in MARKERS) or (Exception,)
            cls = type(spec["tname"], bases, {})
        _CLS_CACHE[key] = cls
    exc = None
    if spec.get("ctor", True):
        try:
            exc = cls(*spec["args"])
        except Exception:
            exc = None
    if exc is None:
        exc = cls()
        exc.args = tuple(spec["args"])
    for name, val in spec["attrs"].items():
        if val is not ABSENT:
            setattr(exc, name, val)
    return exc


def encode_exc(exc):
    """driver record (without the classifier token) read back from the object, + value kinds;
    None if some string is outside ASCII"""
    kinds = {}
    mk = "".join("1" if isinstance(exc, MARKERS[m]) else "0" for m in MARKER_ORDER)
    th = _hex_ascii(type(exc).__name__)
    if th is None:
        return None, kinds
    toks = [mk, "x" + th]
    for name in ("status", "status_code", "code", "sqlstate"):
        t, k = enc_val(getattr(exc, name, None))
        kinds[name] = k
        if t is None:
            return None, kinds
        toks.append(t)
    ats = []
    for a in exc.args:
        t, k = enc_val(a)
        kinds.setdefault("args", []).append(k)
        if t is None:
            return None, kinds
        ats.append(t)
    toks.append(",".join(ats) if ats else "-")
    return " ".join(toks), kinds


def describe(spec) -> str:
    def r(v):
        if v is ABSENT:
            return "<absent>"
        if isinstance(v, int) and not isinstance(v, bool) and abs(v) >= 10 ** 40:
            sign = ("" if type(v) is int else type(v).__name__ + ":") + ("-" if v < 0 else "")
            a = abs(int(v))
            d = len(_big_dec(a))
            if a == 10 ** (d - 1):
                return f"{sign}10**{d - 1}"
            return f"{sign}<int with {d} digits>"
        if type(v) in (list, tuple, dict, set, frozenset):
            try:
                return repr(v)
            except Exception as ex:
                return f"<{type(v).__name__} whose str() raises {type(ex).__name__}>"
        try:
            return repr(v)
        except Exception as ex:
            return f"<{type(v).__name__} whose repr() raises {type(ex).__name__}>"
    attrs = ", ".join(f"{k}={r(v)}" for k, v in spec["attrs"].items() if v is not ABSENT)
    return (f"type({spec['tname']!r}, ({', '.join(spec['bases']) or 'Exception'},), {{}})"
            f"(*[{', '.join(r(a) for a in spec['args'])}]); attrs: {attrs or '-'}")


# ----------------------------------------------------------------------------------------------
# generators
# ----------------------------------------------------------------------------------------------

TABLE_INTS = sorted({-10, -1, 0, 1, 2, 8, 28, 99, 100, 101, 199, 200, 399, 400, 401, 402, 403, 404,
                     405, 407, 408, 409, 410, 421, 422, 423, 428, 429, 430, 499, 500, 501, 503, 550,
                     598, 599, 600, 601, 1000, 1100, 40001, 42000, 28000, 8001, 280, 80})
BIG_INTS = [2 ** 31, 2 ** 63 - 1, 2 ** 63, -2 ** 63, 2 ** 64, 10 ** 400, -10 ** 400, 28 * 10 ** 398,
            5 * 10 ** 400 + 500, -(2 ** 63) - 1, 2 ** 1024]
# around CPython's int->str digit limit (expensive for the driver to parse: kept rare)
LIMIT_INTS = [10 ** 4299, 10 ** 4300 - 1, 10 ** 4300, -10 ** 4300, 10 ** 5000, -(10 ** 4300 - 1),
              28 * 10 ** 4298, 28 * 10 ** 4299]


def gen_huge(rng):
    return rng.choice(LIMIT_INTS) if rng.random() < 0.08 else rng.choice(BIG_INTS)

FLOATS = [float("nan"), float("inf"), float("-inf"), 0.0, -0.0, 1.0, 28.5, 28.0, 0.8, 401.0, 500.0,
          429.5, 1e16, 2800000.0, 2.8e21, -28.0, 5e-324, 1.7976931348623157e308, 40001.0]
DOC_CODES = ["40001", "40P01", "HYT00", "HYT01", "08S01", "42000", "42P01"]
CODE_ALPHA = "0123456789ABCDEFGHIJKLMNOPQRSTUVWXYZ"
REGEX_ALPHA = "A0[]_ a-8H2"
PRINTABLE = "".join(chr(c) for c in range(32, 127))

NAME_HITS = ["Auth", "auth", "AUTH", "Unauthoriz", "UNAUTHORIZED", "unauthorized", "Credential",
             "CREDENTIALS", "credential", "Forbid", "FORBIDDEN", "forbidden", "Permission",
             "PERMISSION", "permission", "Timeout", "TIMEOUT", "TimeOut", "timeout", "Connection",
             "CONNECTION", "connection", "aUtH", "fOrBiD", "tImEoUt"]
NAME_NEAR = ["Aut", "uth", "Auht", "Forbi", "orbid", "Permissio", "ermission", "Timeou", "imeout",
             "Time_out", "Connectio", "onnection", "Credentia", "redential", "Unauthori", "Au_th",
             "Perm", "Conn", "Time"]
NAME_FILL = ["Error", "Exception", "X", "My", "Http", "Client", "DB", "", "_", "42", " ", "Err0r",
             "Status429", "HYT00"]


def gen_code_string(rng):
    r = rng.random()
    if r < 0.30:
        return rng.choice(DOC_CODES)
    if r < 0.45:
        return rng.choice(["08", "28"]) + "".join(rng.choice(CODE_ALPHA) for _ in range(3))
    if r < 0.55:   # near misses of documented codes
        c = list(rng.choice(DOC_CODES))
        i = rng.randrange(5)
        c[i] = rng.choice(CODE_ALPHA)
        return "".join(c)
    if r < 0.65:
        return rng.choice(["08", "28", "0", "2", "8", "80", "82", "008", "028", "08S011", "4000",
                           "400011", "hyt00", "40p01", " 40001", "40001 ", "None", "True", "28.5",
                           "40001.0"])
    return "".join(rng.choice(CODE_ALPHA) for _ in range(5))


def gen_message(rng):
    """strings exercising the two SQLSTATE regexes"""
    r = rng.random()
    code = gen_code_string(rng)
    if r < 0.12:
        return code
    if r < 0.30:
        return "[" + code + "]" + rng.choice(["", " msg", "[", "x", " (0) (SQLDriverConnect)"])
    if r < 0.42:
        pre = rng.choice(["", " ", "x", "_", "-", "(", "[", "ERROR ", "error ", "A", "9", "é"[:0]])
        post = rng.choice(["", " ", "x", "_", "-", ")", "]", ":", "A", "9", ". done"])
        return pre + code + post
    if r < 0.52:
        return rng.choice(["ERROR [", "error [", "[HELLO] [", "ABCDE [", "abc [", "[ABCD] ["]) \
            + code + "]"
    if r < 0.60:
        return rng.choice(["[" + code, code + "]", "[" + code[:4] + "]", "[" + code + "0]",
                           "[[" + code + "]]", "[" + code.lower() + "]", "[ " + code + "]"])
    if r < 0.85:
        n = rng.randrange(0, 14)
        return "".join(rng.choice(REGEX_ALPHA) for _ in range(n))
    n = rng.randrange(0, 20)
    return "".join(rng.choice(PRINTABLE) for _ in range(n))


def gen_int(rng):
    r = rng.random()
    if r < 0.55:
        return rng.choice(TABLE_INTS)
    if r < 0.85:
        return rng.randrange(-10, 1101)
    if r < 0.93:
        return gen_huge(rng)
    return rng.choice([-1, 1]) * rng.getrandbits(rng.choice([8, 16, 40, 70, 200]))


def gen_container(rng):
    return rng.choice([
        [], (), {}, set(), frozenset(), [401], (500,), {"status": 429}, {401}, [0], [None],
        ["40001"], ("HYT00", 1), [[]], {"a": [1, 2]}, [10 ** 5000], {"x": 10 ** 4300}, (10 ** 4300,),
        frozenset({28}), [1, 2, 3],
    ])


def gen_value(rng, slot):
    """slot in status|status_code|code|sqlstate|arg"""
    r = rng.random()
    if slot == "sqlstate":
        if r < 0.22:
            return ABSENT
        if r < 0.30:
            return None
        if r < 0.62:
            return gen_code_string(rng)
        if r < 0.66:
            return gen_message(rng)
        if r < 0.78:
            return gen_int(rng)
    elif slot == "arg":
        if r < 0.45:
            return gen_message(rng)
        if r < 0.75:
            return gen_int(rng)
    else:
        if r < 0.25:
            return ABSENT
        if r < 0.32:
            return None
        if r < 0.72:
            return gen_int(rng)
        if r < 0.76:
            return rng.choice(["", "401", "500", "x", "429"])
    # the long tail, shared by all slots
    k = rng.randrange(9)
    if k == 0:
        return rng.choice([True, False])
    if k == 1:
        return rng.choice(FLOATS)
    if k == 2:
        return rng.choice(["", gen_message(rng), gen_code_string(rng)])
    if k == 3:
        return rng.choice([b"", b"40001", b"x", b"[HYT00]"])
    if k == 4:
        return gen_container(rng)
    if k == 5:
        return rng.choice([Plain(), Falsy(), object()])
    if k == 6:
        return rng.choice([None, 0, False, "", 0.0, b"", []])     # the falsy family
    if k == 7:
        return gen_huge(rng)
    return gen_int(rng)


def _recase(rng, s):
    k = rng.randrange(6)
    if k == 0:
        return s.upper()
    if k == 1:
        return s.lower()
    if k == 2:
        return s.swapcase()
    if k == 3:
        return "".join(c.upper() if rng.random() < 0.5 else c.lower() for c in s)
    return s


def gen_tname(rng):
    r = rng.random()
    if r < 0.18:
        return rng.choice(["X", "Exception", "MyError", "Boom", "E500", "HttpError", ""])
    if r < 0.28:
        n = rng.randrange(0, 13)
        return "".join(rng.choice(PRINTABLE) for _ in range(n))
    parts = []
    for _ in range(rng.randrange(1, 4)):
        q = rng.random()
        parts.append(rng.choice(NAME_HITS if q < 0.45 else NAME_NEAR if q < 0.70 else NAME_FILL))
    return _recase(rng, "".join(parts))


def gen_bases(rng):
    r = rng.random()
    if r < 0.55:
        return []
    if r < 0.80:
        return [rng.choice(MARKER_ORDER)]
    k = rng.randrange(2, 6)
    picked = rng.sample(MARKER_ORDER, k)
    rng.shuffle(picked)
    return picked


def add_builtin_base(rng, bases):
    """sometimes the exception also IS a builtin connection error (what a transport really raises)"""
    if rng.random() < 0.12:
        return bases + [rng.choice(list(BUILTIN_BASES))]
    return bases


def gen_spec(rng):
    attrs = {}
    for slot in ("status", "status_code", "code", "sqlstate"):
        attrs[slot] = gen_value(rng, slot) if rng.random() < 0.6 else ABSENT
    nargs = rng.choice([0, 0, 1, 1, 1, 2, 2, 3, 4])
    args = [gen_value(rng, "arg") for _ in range(nargs)]
    args = [None if a is ABSENT else a for a in args]
    return {"bases": add_builtin_base(rng, gen_bases(rng)), "tname": gen_tname(rng), "attrs": attrs, "args": args,
            "ctor": rng.random() < 0.7}


def mk(tname="X", bases=(), args=(), **attrs):
    a = {"status": ABSENT, "status_code": ABSENT, "code": ABSENT, "sqlstate": ABSENT}
    a.update(attrs)
    return {"bases": list(bases), "tname": tname, "attrs": a, "args": list(args), "ctor": True}


def corpus():
    """boundary cases named in the property and past findings; run first"""
    c = []
    # F9 (fixed by 12f78ca, fec6c4b): int sqlstate beyond the int->str digit limit
    for z in (10 ** 4300, -10 ** 4300, 10 ** 4299, 10 ** 4300 - 1):
        c.append(mk(sqlstate=z))
    c.append(mk(sqlstate=[10 ** 5000]))
    c.append(mk(sqlstate={"k": 10 ** 4300}))
    # F9 second half (fixed by fec6c4b): str() of a list nested beyond the recursion limit
    c.append(mk(sqlstate=deep_list(5000)))
    c.append(mk("AuthError", sqlstate=deep_list(200000), args=["[40001]"]))
    # every documented status, on each attribute and as an arg, with a misleading name / marker
    for z in (401, 403, 400, 404, 422, 409, 408, 429, 499, 500, 599, 600, 0, 1, 100, 200):
        c.append(mk(status=z))
        c.append(mk(code=z))
        c.append(mk(status_code=z))
        c.append(mk(args=[z]))
        c.append(mk("AuthTimeoutForbidden", status=z))
        c.append(mk("X", ["PermanentError"], status=z))
    for m in MARKER_ORDER:
        c.append(mk("AuthError", [m], status=429))
    c.append(mk("X", ["ServerError", "ConcurrencyError", "RateLimitError", "PermanentError",
                      "TimeoutError"]))
    c.append(mk("X", ["ServerError", "ConcurrencyError"]))
    # bools are ints; falsy status consults code; truthy non-int status shadows code
    for st in (True, False, 0, None, "", 0.0, -0.0, b"", [], (), {}, Falsy(), float("nan"), "x",
               500.0, Plain(), [0], b"0"):
        c.append(mk(status=st, code=500))
        c.append(mk("AuthError", status=st, code=403))
        c.append(mk(status=st, status_code=404, code=500, args=[429]))
    c.append(mk(status=True))
    c.append(mk(code=True, args=[500]))
    c.append(mk(args=[True, 99, 600, 100.0, "500", 599, 100]))
    # names
    for n in ("AuthError", "UNAUTHORIZED", "Unauthorised", "CredentialsExpired", "Forbidden",
              "PermissionDenied", "ReadTimeout", "ConnectionResetError", "AuthForbiddenTimeout",
              "ForbiddenTimeout", "PermissionAuth", "TimeoutAuth", "Author", "Timeou", "", " ",
              "aUTh", "Connexion", "Time_out"):
        c.append(mk(n))
        c.append(mk(n, status=418))
    # SQLSTATE
    for code in DOC_CODES + ["08001", "08", "28000", "28", "28P01", "40002", "42001", "HYT02",
                             "hyt00", "0", "2", "80001", "82000", "ABCDE", "12345", "08S011"]:
        c.append(mk(sqlstate=code))
        c.append(mk(args=[code]))
        c.append(mk(args=["[" + code + "]"]))
        c.append(mk(args=["[" + code + "] [Microsoft][ODBC Driver] msg (0)"]))
        c.append(mk(args=["x" + code]))
        c.append(mk(args=[code + "_"]))
        c.append(mk("ConnectionError", args=["no code here", 7, code]))
    c.append(mk(args=["ERROR [40001] serialization failure"]))     # \b-regex finds "ERROR" first
    c.append(mk(args=["HELLO", "[40001]"]))
    c.append(mk(args=[b"[40001]", ["40001"], 40001, "[40001]"]))
    c.append(mk("TimeoutThing", ["TimeoutError"], args=["nothing"]))  # pyodbc ignores markers
    for v in (40001, 42000, 28, 8, 280000, 28.5, 28.0, 0.8, True, b"40001", ["40001"], Plain()):
        c.append(mk(sqlstate=v))
    return c


def int_sweep(tier):
    """ints -10..1100 in every slot (thorough: all of them; quick: boundaries ±2 and a stride)"""
    if tier == "thorough":
        zs = list(range(-10, 1101))
    else:
        near = set()
        for b in (0, 1, 100, 400, 401, 403, 404, 408, 409, 422, 429, 500, 599, 600, 1100, -10):
            near.update(range(b - 2, b + 3))
        zs = sorted(z for z in near | set(range(-10, 1101, 37)) if -10 <= z <= 1100)
    out = []
    for z in zs:
        for tname in ("X", "AuthTimeout"):
            out.append(mk(tname, status=z))
            out.append(mk(tname, status_code=z))
            out.append(mk(tname, code=z))
            out.append(mk(tname, sqlstate=z))
            out.append(mk(tname, args=[z]))
    # "every integer status maps as documented": also when the integer is an instance of an int SUBCLASS
    # (http.HTTPStatus members are what HTTP client libraries put there)
    import http as _http
    for z in (401, 403, 400, 404, 409, 408, 429, 500, 503, 599, 200, 422):
        vals = [MyInt(z)]
        try:
            vals.append(_http.HTTPStatus(z))
        except ValueError:
            pass
        for v in vals:
            for slot in ("status", "status_code", "code"):
                out.append(mk("X", **{slot: v}))
    return out, len(zs)


# ----------------------------------------------------------------------------------------------
# weird inputs: outside the ASCII model; only "does not raise, returns an ErrorClass"
# ----------------------------------------------------------------------------------------------

class MyStr(str):
    pass


class MyInt(int):
    def __repr__(self) -> str:          # shown in replays: the value is NOT a plain int
        return f"MyInt({int(self)})  # class MyInt(int): pass"


def deep_list(n):
    x = []
    for _ in range(n):
        x = [x]
    return x


WEIRD_STRINGS = ["Ünauthorized", "İ", "ſ", "ＡＵＴＨ", "４０００１", "[４０００１]", "é40001", "40001é", "\ud800",
                 "a\0b", "\x00", "A" * 100000, "[" * 5000 + "40001]", "40001\n", " HYT00 ",
                 "K" "elvinK", "autḣ", "08٠١٢", "᠐８S01", "\U0001F600" * 3,
                 MyStr("40001"), MyStr("[HYT00]")]


def gen_weird(rng, deep_ok):
    import http as _http
    pool = WEIRD_STRINGS + [MyInt(429), MyInt(10 ** 4300), _http.HTTPStatus.TOO_MANY_REQUESTS,
                            _http.HTTPStatus.NOT_FOUND, bytearray(b"40001"), memoryview(b"HYT00"),
                            1j, complex("nan"), range(5), Ellipsis, NotImplemented, int, str,
                            (x for x in ()), lambda: 401, [10 ** 5000], {1: {2: {3: 10 ** 4300}}}]
    spec = gen_spec(rng)
    tn = rng.choice(WEIRD_STRINGS[:12] + ["X", "Auth"])
    try:
        type(tn, (Exception,), {})
        spec["tname"] = str(tn)
    except Exception:
        pass
    for slot in ("status", "status_code", "code", "sqlstate"):
        if rng.random() < 0.5:
            spec["attrs"][slot] = rng.choice(pool)
    for _ in range(rng.randrange(0, 3)):
        spec["args"].append(rng.choice(pool))
    return spec


# ----------------------------------------------------------------------------------------------
# running
# ----------------------------------------------------------------------------------------------

def _raiser(name, *a, **k):
    raise ImportError(f"forced by harness: No module named {name!r}")


def call_impl(cl, exc, mode="natural"):
    """-> ('ok', ErrorClass name) | ('raise', exception type name, text) | ('notclass', repr)"""
    try:
        if cl in CORE:
            out = CORE[cl](exc)
        else:
            lib = cl.split(":", 1)[1]
            mod, fn, _pkg = OPTIONAL[lib]
            if mode == "shim":
                saved = mod.importlib
                mod.importlib = Shim(import_module=_raiser)
                try:
                    out = fn(exc)
                finally:
                    mod.importlib = saved
            else:
                out = fn(exc)
    except BaseException as ex:  # noqa: BLE001 - anything escaping is the violation
        if isinstance(ex, (KeyboardInterrupt, SystemExit)):
            raise
        return ("raise", type(ex).__name__, str(ex)[:120])
    if not isinstance(out, ErrorClass):
        return ("notclass", repr(out)[:120])
    return ("ok", out.name)


def raise_sig(cl, spec, exname):
    sq = spec["attrs"].get("sqlstate", ABSENT)
    if exname == "ValueError" and type(sq) is int and abs(sq) >= INT_STR_LIMIT:
        what = "int-sqlstate-over-4300-digits"
    elif exname == "RecursionError" and type(sq) is list:
        what = "deep-container-sqlstate"
    else:
        parts = []
        for k, v in spec["attrs"].items():
            if v is not ABSENT and v is not None:
                parts.append(f"{k}={enc_val(v)[1] if enc_val(v)[0] else type(v).__name__}")
        what = ",".join(parts) or "no-attrs"
    return f"C19/{cl}/raises/{exname}/{what}"


def evaluate(specs, classifiers, mode_of):
    """run all (spec, classifier) pairs on both sides.  -> list of result dicts.
    `classifiers` is a list, or a function spec-index -> list"""
    lines, meta = [], []
    for si, spec in enumerate(specs):
        exc = build(spec)
        rec, kinds = encode_exc(exc)
        for cl in (classifiers(si) if callable(classifiers) else classifiers):
            impl = call_impl(cl, exc, mode_of(si, cl))
            if rec is None:
                meta.append({"si": si, "cl": cl, "impl": impl, "line": None, "kinds": kinds})
            else:
                line = f"{cl} {rec}"
                lines.append(line)
                meta.append({"si": si, "cl": cl, "impl": impl, "line": line, "kinds": kinds})
    out = run_driver("classify", "\n".join(lines) + "\n").splitlines() if lines else []
    out = [o for o in out if not o.startswith("#")]
    if len(out) != len(lines):
        raise RuntimeError(f"driver answered {len(out)} lines for {len(lines)} requests")
    it = iter(out)
    for m in meta:
        m["model"] = next(it).split(" ") if m["line"] is not None else None
    return meta


def judge(m, spec):
    """-> None | failure-dict (without shrinking)"""
    cl, impl, model = m["cl"], m["impl"], m["model"]
    if impl[0] == "raise":
        return {"kind": "violation", "sig": raise_sig(cl, spec, impl[1]),
                "what": f"{cl}_classifier raised {impl[1]}: {impl[2]}"}
    if impl[0] == "notclass":
        return {"kind": "violation", "sig": f"C19/{cl}/not-an-ErrorClass",
                "what": f"{cl}_classifier returned {impl[1]}, not an ErrorClass"}
    if model is None:
        return None
    if model == ["bad-op"] or len(model) != 3:
        return {"kind": "divergence", "sig": f"C19/{cl}/driver-bad-op",
                "what": f"driver rejected the record: {model}"}
    mclass, branch, spec_k = model
    got = impl[1]
    if spec_k != "-" and got != spec_k:
        return {"kind": "violation",
                "sig": f"C19/{cl}/table/{branch}/expected={spec_k}/got={got}",
                "what": f"documented table (Lean Spec.expected) promises {spec_k}; "
                        f"implementation answered {got} (model: {mclass}, branch {branch})"}
    if got != mclass:
        return {"kind": "divergence", "sig": f"C19/{cl}/model/{branch}/model={mclass}/got={got}",
                "what": f"model answered {mclass} (branch {branch}); implementation answered {got}; "
                        f"the documented table promises nothing here"}
    return None


def shrink(spec, cl, sig_kind, mode, budget=40):
    """greedy: drop bases / attributes / args, simplify the name, while the same kind of failure
    (same classifier, same violation/divergence kind, same sig prefix) persists"""
    def fails(s):
        m = evaluate([s], [cl], lambda *_: mode)[0]
        f = judge(m, s)
        return f is not None and f["kind"] == sig_kind[0] and \
            f["sig"].split("/")[:3] == sig_kind[1].split("/")[:3]

    cur = spec
    steps = 0
    changed = True
    while changed and steps < budget:
        changed = False
        cands = []
        for i in range(len(cur["bases"])):
            cands.append({**cur, "bases": cur["bases"][:i] + cur["bases"][i + 1:]})
        for k, v in cur["attrs"].items():
            if v is not ABSENT:
                cands.append({**cur, "attrs": {**cur["attrs"], k: ABSENT}})
        for i in range(len(cur["args"])):
            cands.append({**cur, "args": cur["args"][:i] + cur["args"][i + 1:]})
        if cur["tname"] != "X":
            cands.append({**cur, "tname": "X"})
            if len(cur["tname"]) > 1:
                h = len(cur["tname"]) // 2
                cands.append({**cur, "tname": cur["tname"][:h]})
                cands.append({**cur, "tname": cur["tname"][h:]})
        for c in cands:
            steps += 1
            if steps > budget:
                break
            try:
                if fails(c):
                    cur, changed = c, True
                    break
            except Exception:
                continue
    return cur


def run(tier: str, seed: int) -> dict:
    rng = random.Random(seed)
    n_random = 5000 if tier == "quick" else 100000
    n_weird = 600 if tier == "quick" else 6000

    present = {lib: importlib.util.find_spec(pkg) is not None for lib, (_m, _f, pkg) in OPTIONAL.items()}
    classifiers = list(CORE) + [f"optional:{lib}" for lib in OPTIONAL]

    def mode_of(si, cl):
        if not cl.startswith("optional:"):
            return "natural"
        lib = cl.split(":", 1)[1]
        if present[lib]:
            return "shim"          # library importable here: absence must be forced
        return "shim" if (si // 5) % 2 else "natural"

    corp = corpus()
    sweep, n_sweep_ints = int_sweep(tier)
    randoms = [gen_spec(rng) for _ in range(n_random)]
    groups = [("corpus", corp), ("int-sweep", sweep), ("random", randoms)]

    dist = {
        "redress_path": getattr(redress, "__file__", "?"),
        "optional_library_present": present,
        "records": {}, "by_classifier_branch": Counter(), "by_classifier_class": Counter(),
        "value_kinds": Counter(), "bases": Counter(), "deciding_int_boundaries": Counter(),
        "name_heuristic_hits": Counter(), "optional_mode": Counter(), "spec_coverage": Counter(),
        "sweep_ints": n_sweep_ints,
        "int_sweep_exhaustive": tier == "thorough",   # every int in -10..1100, each slot, all classifiers
    }
    failures, seen_sigs = [], {}
    evaluations = 0
    nontrivial = set()
    samples = []
    boundary_set = {0, 1, 99, 100, 399, 400, 401, 402, 403, 404, 405, 407, 408, 409, 410, 421, 422,
                    423, 428, 429, 430, 499, 500, 501, 598, 599, 600, 601}

    for gname, specs in groups:
        dist["records"][gname] = len(specs)
        # chunk so that the driver input stays moderate
        for lo in range(0, len(specs), 20000):
            chunk = specs[lo:lo + 20000]
            if gname == "random":   # 5 core classifiers + one optional library, rotating
                opt = [f"optional:{lib}" for lib in OPTIONAL]
                cls_of = lambda si: list(CORE) + [opt[si % len(opt)]]   # noqa: E731
            else:
                cls_of = classifiers
            metas = evaluate(chunk, cls_of, mode_of)
            for m in metas:
                spec = chunk[m["si"]]
                if m["line"] is None:
                    continue            # non-ASCII: cannot happen in these groups
                evaluations += 1
                cl = m["cl"]
                if cl.startswith("optional:"):
                    dist["optional_mode"][mode_of(m["si"], cl)] += 1
                model = m["model"]
                if len(model) == 3:
                    dist["by_classifier_branch"][f"{cl}:{model[1]}"] += 1
                    dist["by_classifier_class"][f"{cl}:{model[0]}"] += 1
                    dist["spec_coverage"][f"{cl}:{'promised' if model[2] != '-' else 'unconstrained'}"] += 1
                    if not model[1].endswith("fallback"):
                        nontrivial.add(m["line"])
                if cl == "default":
                    for slot, k in m["kinds"].items():
                        if slot == "args":
                            for kk in k:
                                dist["value_kinds"][f"arg:{kk}"] += 1
                        else:
                            dist["value_kinds"][f"{slot}:{k}"] += 1
                    dist["bases"]["+".join(spec["bases"]) or "Exception"] += 1
                    for slot in ("status", "status_code", "code"):
                        v = spec["attrs"][slot]
                        if type(v) is int and v in boundary_set:
                            dist["deciding_int_boundaries"][f"{slot}={v}"] += 1
                    low = spec["tname"].lower()
                    for pat in ("auth", "unauthoriz", "credential", "forbid", "permission", "timeout",
                                "connection"):
                        if pat in low:
                            dist["name_heuristic_hits"][pat] += 1
                f = judge(m, spec)
                if f is not None:
                    key = f["sig"]
                    seen_sigs[key] = seen_sigs.get(key, 0) + 1
                    if seen_sigs[key] == 1 and len(failures) < 25:
                        small = shrink(spec, cl, (f["kind"], f["sig"]), mode_of(m["si"], cl))
                        m2 = evaluate([small], [cl], lambda *_: mode_of(m["si"], cl))[0]
                        f2 = judge(m2, small) or f
                        failures.append({
                            "property": PROPERTY, "kind": f2["kind"], "sig": f2["sig"],
                            "detail": f"[{gname}] {describe(small)} :: {f2['what']}",
                            "replay": (f"driver classify <<< {_clip(m2['line'])!r}\n"
                                       f"model answered: {' '.join(m2['model'] or ['<not encodable>'])}\n"
                                       f"python: {describe(small)}\n"
                                       f"python {cl} -> {m2['impl']}"),
                        })
                elif len(samples) < 8 and gname == "random" and len(model) == 3 \
                        and not model[1].endswith("fallback") and evaluations % 97 == 0:
                    samples.append({"line": _clip(m["line"]), "model": " ".join(model),
                                    "python": m["impl"][1]})

    # weird stream: only totality is checked
    weird_calls = 0
    weird_raises = Counter()
    weird_specs = [gen_weird(rng, True) for _ in range(n_weird)]
    weird_specs.append(mk(sqlstate=deep_list(5000)))
    weird_specs.append(mk(args=[deep_list(5000)], status=deep_list(5000)))
    for spec in weird_specs:
        try:
            exc = build(spec)
        except Exception:
            continue
        for cl in classifiers:
            impl = call_impl(cl, exc, "natural" if not present.get(cl.split(":")[-1], False) else "shim")
            weird_calls += 1
            if impl[0] != "ok":
                exname = impl[1] if impl[0] == "raise" else "not-an-ErrorClass"
                sig = raise_sig(cl, spec, exname)
                weird_raises[sig] += 1
                if weird_raises[sig] == 1 and len(failures) < 40:
                    failures.append({
                        "property": PROPERTY, "kind": "violation", "sig": sig,
                        "detail": f"[weird] {_clip(describe(spec), 600)} :: {cl} -> {impl}",
                        "replay": f"python only (outside the ASCII model): {_clip(describe(spec), 600)}\n"
                                  f"python {cl} -> {impl}",
                    })
    dist["weird_totality_only_calls"] = weird_calls
    dist["weird_raises"] = dict(weird_raises)
    dist["failure_sig_counts"] = seen_sigs

    for k, v in list(dist.items()):
        if isinstance(v, Counter):
            dist[k] = dict(sorted(v.items()))

    return {
        "family": "classifiers",
        "evaluations": evaluations,
        "distinct_nontrivial": len(nontrivial),
        "rule": ("cases = corpus (documented boundaries, past findings) + integer sweep "
                 f"({'every' if tier == 'thorough' else 'boundary-dense sample of'} int in -10..1100 in "
                 "each of status/status_code/code/sqlstate/args[0], two type names) + seeded random "
                 "records (marker-base combinations, heuristic / near-miss / random ASCII names, "
                 "generated values in the four attributes and args); every record is given to the 5 "
                 "core classifiers and to optional-library classifiers (all 5 for corpus and sweep, one "
                 "rotating for random records; library absent naturally and through an importlib shim) "
                 "and to the Lean model; an evaluation is one "
                 "(classifier, record) pair; distinct = distinct driver request lines; non-trivial = a "
                 "test other than the final fallback decided (driver's branch token does not end in "
                 "'fallback')"),
        "samples": samples,
        "distribution": dist,
        "exhaustive": False,   # only the integer sweep is exhaustive (distribution.int_sweep_exhaustive)
        "failures": failures,
    }


def _clip(s, n=300):
    if s is None:
        return None
    return s if len(s) <= n else s[:n] + f"...<{len(s) - n} more chars>"


if __name__ == "__main__":
    tier = sys.argv[1] if len(sys.argv) > 1 else "quick"
    seed = int(sys.argv[2]) if len(sys.argv) > 2 else 0
    print(json.dumps(run(tier, seed), indent=1, default=str))
