"""Drive the real redress retry loop / policy with an on-demand oracle and record every callback.

A *case* is: a configuration, an initial state of the shared components, a script of steps (calls on
one policy object, clock advances), and an oracle that answers every callback the library makes.
The recorded exchange log uses exactly the canonical text of `Redress.Wire` (Lean), so that the
model's own log can be compared line by line.
"""
from __future__ import annotations

import asyncio
import math
import random
from dataclasses import dataclass, field
from typing import Any

from .common import TICK, Shim, VClock, ensure_repo_on_path, to_ticks

ensure_repo_on_path()

import redress.budget as _budget_mod  # noqa: E402
import redress.policy.execution as _execution_mod  # noqa: E402
import redress.policy.retry_helpers as _helpers_mod  # noqa: E402
import redress.policy.runner.timeline as _timeline_mod  # noqa: E402
import redress.policy.state as _state_mod  # noqa: E402
from redress import (  # noqa: E402
    AsyncPolicy,
    AsyncRetry,
    AsyncRetryPolicy,
    Budget,
    CircuitBreaker,
    Policy,
    Retry,
    RetryPolicy,
)
from redress.classify import Classification  # noqa: E402
from redress.errors import (  # noqa: E402
    AbortRetryError,
    CircuitOpenError,
    ConcurrencyError,
    ErrorClass,
    PermanentError,
    RateLimitError,
    RetryExhaustedError,
    ServerError,
    StopReason,
)
from redress.policy.decorator import retry as retry_decorator  # noqa: E402
from redress.policy.types import RetryOutcome, RetryTimeline  # noqa: E402
from redress.sleep import SleepDecision  # noqa: E402
from redress.policy.types import AttemptDecision  # noqa: E402
from redress.config import RetryConfig  # noqa: E402

CLASSES = ["AUTH", "PERMISSION", "PERMANENT", "CONCURRENCY", "RATE_LIMIT", "SERVER_ERROR",
           "TRANSIENT", "UNKNOWN"]


# --------------------------------------------------------------------------- exceptions / values

class _Marked:
    vid: int
    tokname: str


def _mk_exc_classes() -> dict[str, type]:
    out: dict[str, type] = {}
    bases = {
        "PERMANENT": PermanentError, "RATE_LIMIT": RateLimitError, "CONCURRENCY": ConcurrencyError,
        "SERVER_ERROR": ServerError, "TRANSIENT": TimeoutError,
        "AUTH": Exception, "PERMISSION": Exception, "UNKNOWN": Exception,
    }
    def _nocopy(self, *a):
        raise TypeError("this exception object cannot be copied")

    for k, base in bases.items():
        # (an exception may hold a resource that cannot be copied; the library re-raises / reports the object itself)
        cls = type("X" + k, (base,), {"__copy__": _nocopy, "__deepcopy__": _nocopy})
        if k == "AUTH":
            cls.status = 401
        if k == "PERMISSION":
            cls.status = 403
        out[k] = cls
    return out


EXC_CLASSES = _mk_exc_classes()


class XGEN(Exception):
    """ONE exception type whose class is carried by the INSTANCE (`status`, as HTTP client errors do): what
    `default_classifier` says about it must be computed per object, never remembered per type."""

    def __copy__(self):
        raise TypeError("this exception object cannot be copied")

    def __deepcopy__(self, memo):
        raise TypeError("this exception object cannot be copied")


GEN_STATUS = {"AUTH": 401, "PERMISSION": 403, "PERMANENT": 404, "CONCURRENCY": 409, "RATE_LIMIT": 429,
              "SERVER_ERROR": 503, "UNKNOWN": None}
# the same classes (same `__name__`, same bases) whose INSTANCES are falsy — an aggregate error with an empty
# member list (`__len__` == 0): `if exc:` is not `if exc is not None:`
EXC_CLASSES_FALSY = {k: type(c.__name__, (c,), {"__len__": lambda self: 0}) for k, c in EXC_CLASSES.items()}


_CAUSE_MARK = LookupError("the operation's own `raise … from` cause")


class Val:
    """An object returned by the operation; identity matters."""

    def __init__(self, vid: int) -> None:
        self.vid = vid

    def __repr__(self) -> str:
        return f"Val({self.vid})"

    # a result may be a handle that cannot be copied (a connection, a lock, an open file): the library hands the
    # caller's own object on, it never copies it
    def __copy__(self):
        raise TypeError("this result object cannot be copied")

    def __deepcopy__(self, memo):
        raise TypeError("this result object cannot be copied")

    def __reduce_ex__(self, protocol):
        raise TypeError("this result object cannot be pickled")


def opt(x: Any, f=str) -> str:
    return "-" if x is None else f(x)


def str_tok(s: str) -> str:
    return "~" if s == "" else s


# A FIRED attempt timeout: the operation hangs and the library itself makes the TimeoutError.  To the model that is
# the operation raising a TRANSIENT-typed exception (the oracle's answer `raise ordinary:<id>:TRANSIENT d` is taken
# to mean "hangs; the timeout fires" — see Env._hangs); the library-made object is given that token when it is
# first seen leaving the library.
_PENDING_TIMEOUT: list = [None]
_STRAY_TIMEOUT: list = [False]      # a library-made TimeoutError nobody asked for was seen (real-time stall, sync)


def _adopt(e: BaseException) -> None:
    tok = _PENDING_TIMEOUT[0]
    if tok is not None and type(e) is TimeoutError and getattr(e, "_tok", None) is None:
        e._tok = tok  # type: ignore[attr-defined]
        e._ref = "o" + tok.split(":")[1]  # type: ignore[attr-defined]
        e._adopted = True  # type: ignore[attr-defined]


def exn_tok(e: BaseException) -> str:
    """Canonical token of an exception object as it leaves the library (cf. Wire.exnTok)."""
    _adopt(e)
    tok = getattr(e, "_tok", None)
    if tok is not None:
        return tok
    if isinstance(e, asyncio.CancelledError):
        return "cancelled"
    if isinstance(e, KeyboardInterrupt):
        return "keyboardInterrupt"
    if isinstance(e, SystemExit):
        return "systemExit"
    if isinstance(e, GeneratorExit):
        return "generatorExit"
    if isinstance(e, AbortRetryError):
        return "libAbort"
    if isinstance(e, RetryExhaustedError):
        return "libExhausted:" + ":".join([
            e.stop_reason.value, str(e.attempts), opt(e.last_class, lambda k: k.name),
            opt(e.last_exception, exn_ref), opt(e.last_result, lambda v: str(v.vid)),
            opt(e.next_sleep_s, lambda s: str(to_ticks(s)))])
    if isinstance(e, CircuitOpenError):
        return "libCircuitOpen:" + str(e.state)
    if isinstance(e, ValueError):
        return "libValueError"
    if isinstance(e, RuntimeError):
        return "libRuntimeError"
    if type(e) is TimeoutError:
        _STRAY_TIMEOUT[0] = True
    return "unexpected:" + type(e).__name__


def exn_ref(e: BaseException) -> str:
    """Cf. Exn.ref: how an exception object is named when it is an *argument* of a callback."""
    _adopt(e)
    ref = getattr(e, "_ref", None)
    if ref is not None:
        return ref
    t = exn_tok(e)
    return t.split(":")[0]


class StopDriver(Exception):
    """Raised by the oracle when a replay script is exhausted (model-side `stuck`)."""


# --------------------------------------------------------------------------- answers

@dataclass(frozen=True)
class Ans:
    kind: str                 # unit bool value klass noFailure delay decision raise
    a: Any = None
    b: Any = None
    dur: int = 0

    def toks(self) -> str:
        k = self.kind
        if k == "unit":
            return f"unit {self.dur}"
        if k == "bool":
            return f"bool {1 if self.a else 0} {self.dur}"
        if k == "value":
            return f"value {self.a} {self.dur}"
        if k == "klass":
            return f"klass {self.a} {opt(self.b)} {self.dur}"
        if k == "noFailure":
            return f"noFailure {self.dur}"
        if k == "delay":
            return f"delay {self.a} {self.dur}"
        if k == "decision":
            return f"decision {self.a} {self.dur}"
        if k == "raise":
            return f"raise {self.a} {self.dur}"
        raise ValueError(k)


def parse_ans(s: str) -> Ans:
    t = s.split()
    k = t[0]
    if k in ("unit", "noFailure"):
        return Ans(k, dur=int(t[1]))
    if k == "bool":
        return Ans(k, t[1] == "1", dur=int(t[2]))
    if k == "value":
        return Ans(k, int(t[1]), dur=int(t[2]))
    if k == "klass":
        return Ans(k, t[1], None if t[2] == "-" else int(t[2]), dur=int(t[3]))
    if k in ("delay", "decision", "raise"):
        return Ans(k, t[1], dur=int(t[2]))
    raise ValueError(s)


# cancellation-type exceptions whose class ALSO derives from Exception (compatibility shims such as
# `class Cancelled(asyncio.CancelledError, concurrent.futures.CancelledError)`): still a CancelledError /
# KeyboardInterrupt / SystemExit, so still "never classified, retried, delayed or swallowed" — an `except Exception`
# arm placed before the pass-through arms would catch them.  Chosen per case by wall_seed bit 21.
import concurrent.futures as _cf  # noqa: E402


class _MixedCancelled(asyncio.CancelledError, _cf.CancelledError):
    pass


class _MixedKeyboardInterrupt(KeyboardInterrupt, Exception):
    pass


class _MixedSystemExit(SystemExit, RuntimeError):
    pass


_MIXED_CANCEL: list = [False]


def make_exception(tok: str, falsy_ok: bool = False, mixed: bool = False) -> BaseException:
    """Build the Python exception object for a `raise` answer token (cf. Wire.exnTok)."""
    p = tok.split(":")
    k = p[0]
    e: BaseException
    if k == "ordinary":
        # every third exception token is a falsy instance (deterministic in the token, so replays agree)
        if int(p[1]) % 3 != 0 and int(p[1]) % 4 == 1 and p[2] in GEN_STATUS:
            # every fourth-or-so token: the shared type, class by instance attribute (deterministic in the token)
            e = XGEN(f"boom{p[1]}")
            if GEN_STATUS[p[2]] is not None:
                e.status = GEN_STATUS[p[2]]  # type: ignore[attr-defined]
        else:
            e = (EXC_CLASSES_FALSY if falsy_ok and int(p[1]) % 3 == 0 else EXC_CLASSES)[p[2]](f"boom{p[1]}")
        e._ref = f"o{p[1]}"  # type: ignore[attr-defined]
    elif k == "abort":
        e = AbortRetryError()
        e._ref = f"a{p[1]}"  # type: ignore[attr-defined]
    elif k == "exhausted":
        lc = None if p[2] == "-" else ErrorClass[p[2]]
        e = RetryExhaustedError(stop_reason=StopReason.MAX_ATTEMPTS_GLOBAL, attempts=1,
                                last_class=lc, last_exception=None, last_result=None)
        object.__setattr__(e, "_ref", f"x{p[1]}")
        object.__setattr__(e, "_tok", tok)
        return e
    elif k == "circuitOpen":
        e = CircuitOpenError("open")
        e._ref = f"c{p[1]}"  # type: ignore[attr-defined]
    elif k == "cancelled":
        return (_MixedCancelled if (mixed and _MIXED_CANCEL[0]) else asyncio.CancelledError)()
    elif k == "keyboardInterrupt":
        return (_MixedKeyboardInterrupt if (mixed and _MIXED_CANCEL[0]) else KeyboardInterrupt)()
    elif k == "systemExit":
        return (_MixedSystemExit if (mixed and _MIXED_CANCEL[0]) else SystemExit)()
    elif k == "generatorExit":
        return GeneratorExit()
    else:
        raise ValueError(tok)
    e._tok = tok  # type: ignore[attr-defined]
    return e


_UNPRINTABLE: dict = {}


def _unprintable(cls: type) -> type:
    """Same-named subclass of `cls` whose instances cannot be formatted."""
    sub = _UNPRINTABLE.get(cls)
    if sub is None:
        def _bad(self):
            raise ValueError("this exception cannot be formatted")
        sub = _UNPRINTABLE[cls] = type(cls.__name__, (cls,), {"__repr__": _bad, "__str__": _bad})
    return sub


_UNSET = object()


def sig_shape(spec: str) -> tuple[int, int, bool, int, int, bool]:
    """(required positional, defaulted positional, *args, required kw-only, defaulted kw-only, **kwargs)"""
    if spec == "ctx":
        return (1, 0, False, 0, 0, False)
    if spec == "legacy":
        return (3, 0, False, 0, 0, False)
    assert spec.startswith("sig="), spec
    r, o, v, kr, ko, vk = spec[4:].split(".")
    return (int(r), int(o), v == "1", int(kr), int(ko), vk == "1")


def sig_callable(shape, on_call, method: bool = False):
    """A function whose `inspect.signature` has exactly `shape`; it hands the positional arguments it
    was actually given (defaults left alone) and the keyword arguments to `on_call(args, kwargs)`."""
    r, o, v, kr, ko, vk = shape
    params = (["self"] if method else []) + [f"p{i}" for i in range(r)] + [f"q{i}=_UNSET" for i in range(o)]
    if v:
        params.append("*va")
    elif kr or ko:
        params.append("*")
    params += [f"kr{i}" for i in range(kr)] + [f"ko{i}=_UNSET" for i in range(ko)]
    if vk:
        params.append("**vk")
    pos = ", ".join([f"p{i}" for i in range(r)] + [f"q{i}" for i in range(o)])
    kws = ", ".join([f"'kr{i}': kr{i}" for i in range(kr)] + [f"'ko{i}': ko{i}" for i in range(ko)])
    src = (f"def strategy({', '.join(params)}):\n"
           f"    args = [x for x in [{pos}] if x is not _UNSET]" + (" + list(va)" if v else "") + "\n"
           f"    kwargs = {{k: x for k, x in {{{kws}}}.items() if x is not _UNSET}}\n"
           + ("    kwargs.update(vk)\n" if vk else "")
           + "    return _on_call(args, kwargs)\n")
    ns = {"_UNSET": _UNSET, "_on_call": on_call}
    exec(src, ns)  # noqa: S102 - generated from six small integers
    return ns["strategy"]


# --------------------------------------------------------------------------- configuration

@dataclass
class LoopCfg:
    max_attempts: int = 3
    deadline: int = 100                      # ticks
    max_unknown: int | None = 2
    per_class: dict[str, int] = field(default_factory=dict)
    strat_default: str | None = "ctx"        # ctx | legacy | None
    strat_for: dict[str, str] = field(default_factory=dict)
    strat_records: list[str] = field(default_factory=list)   # keys: default | cls:K
    budget: tuple[int, int] | None = None    # (max_retries, window ticks)
    breaker: dict | None = None              # threshold, window, recovery, trip(list), cls(dict)
    operation: str | None = None
    flags: set[str] = field(default_factory=set)
    # how the objects are built / called (all map to one of the four model entries)
    kind: str = "Retry"                      # Retry | Policy | RetryPolicy | decorator
    via_context: bool = False
    # initial component state
    init_now: int = 0
    init_budget: list[int] = field(default_factory=list)
    init_breaker: dict | None = None         # state, opened_at, probe, failures, class_failures
    # C15's twin semantics (`World.silent`): an Exception raised by an observability hook (on_metric,
    # on_log, before_sleep) is turned into a normal return of the same duration by the harness's hook
    silent_hooks: bool = False

    def has(self, f: str) -> bool:
        return f in self.flags

    @staticmethod
    def from_case_text(text: str) -> "tuple[LoopCfg, dict, list[str]]":
        """Rebuild the configuration, the meta record and the answer list from a case block."""
        import json as _json
        c = LoopCfg()
        meta: dict = {}
        answers: list[str] = []
        for line in text.splitlines():
            if line.startswith("# meta "):
                meta = _json.loads(line[len("# meta "):])
            elif line.startswith("a "):
                answers.append(line[2:])
            elif line.startswith("cfg "):
                for tok in line.split()[1:]:
                    k, _, v = tok.partition("=")
                    if k == "max_attempts":
                        c.max_attempts = int(v)
                    elif k == "deadline":
                        c.deadline = int(v)
                    elif k == "max_unknown":
                        c.max_unknown = None if v == "-" else int(v)
                    elif k == "per_class":
                        c.per_class = {} if v == "-" else {x.split(":")[0]: int(x.split(":")[1]) for x in v.split(",")}
                    elif k == "strat_default":
                        c.strat_default = None if v == "-" else v
                    elif k == "strat_for":
                        c.strat_for = {} if v == "-" else {x.split(":")[0]: x.split(":")[1] for x in v.split(",")}
                    elif k == "strat_records":
                        c.strat_records = [] if v == "-" else v.split(",")
                    elif k == "budget":
                        c.budget = None if v == "-" else (int(v.split(":")[0]), int(v.split(":")[1]))
                    elif k == "breaker":
                        if v == "-":
                            c.breaker = None
                        else:
                            th, win, rec, trip, cls = v.split(";")
                            c.breaker = {"threshold": int(th), "window": int(win), "recovery": int(rec),
                                         "trip": [] if trip == "-" else trip.split("+"),
                                         "cls": {} if cls == "-" else {x.split(":")[0]: int(x.split(":")[1])
                                                                       for x in cls.split(",")}}
                    elif k == "operation":
                        c.operation = None if v == "-" else ("" if v == "~" else v)
                    elif k == "flags":
                        c.flags = set() if v == "-" else set(v.split(","))
            elif line.startswith("init "):
                for tok in line.split()[1:]:
                    k, _, v = tok.partition("=")
                    if k == "now":
                        c.init_now = int(v)
                    elif k == "silent":
                        c.silent_hooks = v == "1"
                    elif k == "budget":
                        c.init_budget = [] if v == "-" else [int(x) for x in v.split(",")]
                    elif k == "breaker":
                        st, oa, pr, fs, cfs = v.split(";")
                        cf: dict = {}
                        if cfs != "-":
                            for x in cfs.split(","):
                                kk, t = x.split(":")
                                cf.setdefault(kk, []).append(int(t))
                        c.init_breaker = {"state": st, "opened_at": None if oa == "-" else int(oa),
                                          "probe": pr == "1", "failures": [] if fs == "-" else [int(x) for x in fs.split(",")],
                                          "class_failures": cf}
        c.kind = meta.get("kind", "Retry")
        c.via_context = meta.get("via_context", False)
        return c, meta, answers

    def cfg_line(self) -> str:
        parts = [f"max_attempts={self.max_attempts}", f"deadline={self.deadline}",
                 f"max_unknown={opt(self.max_unknown)}"]
        parts.append("per_class=" + (",".join(f"{k}:{v}" for k, v in sorted(self.per_class.items())) or "-"))
        parts.append(f"strat_default={opt(self.strat_default)}")
        parts.append("strat_for=" + (",".join(f"{k}:{v}" for k, v in sorted(self.strat_for.items())) or "-"))
        parts.append("strat_records=" + (",".join(self.strat_records) or "-"))
        parts.append("budget=" + ("-" if self.budget is None else f"{self.budget[0]}:{self.budget[1]}"))
        if self.breaker is None:
            parts.append("breaker=-")
        else:
            b = self.breaker
            trip = "+".join(b["trip"]) or "-"
            cls = ",".join(f"{k}:{v}" for k, v in sorted(b["cls"].items())) or "-"
            parts.append(f"breaker={b['threshold']};{b['window']};{b['recovery']};{trip};{cls}")
        parts.append("operation=" + opt(self.operation, str_tok))
        parts.append("flags=" + (",".join(sorted(self.flags)) or "-"))
        return "cfg " + " ".join(parts)

    def init_line(self) -> str:
        bud = ",".join(str(x) for x in self.init_budget) or "-"
        ib = self.init_breaker
        if ib is None:
            brk = "closed;-;0;-;-"
        else:
            fs = ",".join(str(x) for x in ib.get("failures", [])) or "-"
            cf = ",".join(f"{k}:{t}" for k, ts in sorted(ib.get("class_failures", {}).items()) for t in ts) or "-"
            brk = f"{ib['state']};{opt(ib.get('opened_at'))};{1 if ib.get('probe') else 0};{fs};{cf}"
        return f"init now={self.init_now} budget={bud} breaker={brk}" + (" silent=1" if self.silent_hooks else "")


# --------------------------------------------------------------------------- the environment

class Suspend:
    """Awaitable that yields control to the hand-written coroutine driver."""

    def __init__(self, payload: Any = None) -> None:
        self.payload = payload

    def __await__(self):
        r = yield self
        return r


class _FalsyCallable:
    """A callable object whose truth value is False (a cancellation token whose bool() mirrors "cancelled?",
    an empty schedule, ...): the library must test callbacks with `is None`, never by truthiness."""

    def __init__(self, fn) -> None:
        self._fn = fn

    def __call__(self, *a, **k):
        return self._fn(*a, **k)

    def __bool__(self) -> bool:
        return False


class _Deferred:
    """An awaitable that is not a coroutine object."""

    def __init__(self, coro) -> None:
        self._coro = coro

    def __await__(self):
        return self._coro.__await__()


class Env:
    """Holds the virtual clock, the oracle and the logs for one case."""

    def __init__(self, cfg: LoopCfg, oracle, wall_seed: int = 0) -> None:
        self.cfg = cfg
        self.oracle = oracle
        self.clock = VClock(cfg.init_now)
        self.step = 0
        self.exchanges: list[tuple[int, str, str]] = []   # (step, req, ans)
        self.answers: list[str] = []                      # oracle answers in consumption order
        self.op_count = 0
        self.call_start = 0
        self._wall = random.Random(wall_seed)
        self.wall_seed_bits = wall_seed          # bits 1, 2 choose among equivalent callable forms
        self.reentrant = False                   # see _maybe_nested
        import threading as _threading
        self.release = _threading.Event()        # frees worker threads a fired sync attempt timeout abandoned
        self.main_task = None
        _PENDING_TIMEOUT[0] = None
        _STRAY_TIMEOUT[0] = False
        _MIXED_CANCEL[0] = bool(wall_seed & (1 << 21))
        self.depth = 0
        self.built = None
        self.nested_runs: list = []
        self.nested_replay: list | None = None   # replay: one ReplayOracle per nested call
        self.is_async = cfg.has("async")
        self.deliver_throw = False     # deliver cancellation kinds by coro.throw at a suspension
        self._install_shims()

    # -- time ---------------------------------------------------------------------------------
    def _install_shims(self) -> None:
        def wall_time() -> float:       # non-monotonic clock: jumps by hours at every read
            return 1.7e9 + self._wall.uniform(-7200.0, 7200.0)

        mono = Shim(monotonic=self.clock.read, time=wall_time, perf_counter=wall_time,
                    sleep=self._default_sleep)
        for mod in (_state_mod, _execution_mod, _timeline_mod, _budget_mod, _helpers_mod):
            mod.time = mono
        _helpers_mod.asyncio = Shim(asyncio, sleep=self._default_async_sleep)

    # -- oracle plumbing ------------------------------------------------------------------------
    def info(self) -> dict:
        el = self.clock.ticks - self.call_start
        return {"elapsed": el, "remaining": self.cfg.deadline - el, "now": self.clock.ticks,
                "op_count": self.op_count,
                "timeout_fires": bool(self.__dict__.get("timeout_fires") and not self.depth),
                "timeout_fires_async": bool(self.__dict__.get("timeout_fires") and self.__dict__.get("real_loop")
                                            and not self.depth)}

    def ask(self, req: str, kind: str, extra: dict | None = None, nested_ticks: int = 0) -> Ans:
        info = self.info()
        if extra:
            info.update(extra)
        info["req"] = req
        a: Ans = self.oracle.choose(kind, info)
        if nested_ticks:
            # the operation made a nested call through the same policy first; for THIS call that is just time
            # spent inside the operation: the logged duration is the whole of it, the clock has already moved
            # by the nested part
            if self.nested_replay is not None:
                total = max(a.dur, nested_ticks)
            else:
                total = a.dur + nested_ticks
            logged = Ans(a.kind, a.a, a.b, dur=total)
            self.answers.append(logged.toks())
            self.exchanges.append((self.step, req, logged.toks()))
            self.clock.advance(total - nested_ticks)
            return a
        self.answers.append(a.toks())
        if (self.cfg.silent_hooks and kind in ("metric", "log", "beforeSleep") and a.kind == "raise"
                and a.a.split(":")[0] in ("ordinary", "abort", "exhausted", "circuitOpen")):
            a = Ans("unit", dur=a.dur)          # cf. Ans.silenced in Model/World.lean
        self.exchanges.append((self.step, req, a.toks()))
        self.clock.advance(a.dur)
        return a

    def log_internal(self, req: str, ans: str) -> None:
        self.exchanges.append((self.step, req, ans))

    def _raise_or(self, a: Ans, mixed: bool = False, unprintable: bool = False) -> None:
        """`mixed`: the operation and the sleepers only (C13: "raised by the operation or during a sleep");
        `unprintable`: what an observability hook raises cannot be formatted either (`repr`/`str` raise) — C15 says
        such a hook's failure is swallowed, not reported through a path that can itself fail"""
        if a.kind == "raise":
            e = make_exception(a.a, mixed=mixed)
            if unprintable and a.a.split(":")[0] == "ordinary":
                e.__class__ = _unprintable(type(e))
            raise e

    async def _araise_or(self, a: Ans, mixed: bool = False) -> None:
        """Async variant: optionally deliver BaseException-only kinds via a real suspension."""
        if a.kind == "raise":
            k = a.a.split(":")[0]
            if self.deliver_throw and k in ("cancelled", "keyboardInterrupt", "systemExit", "generatorExit"):
                await Suspend(a.a)     # the coroutine driver throws the exception in here
                raise AssertionError("suspension resumed without exception")
            raise make_exception(a.a, mixed=mixed)

    # -- canonical argument text -------------------------------------------------------------
    @staticmethod
    def bctx(ctx, legacy: bool = False) -> str:
        c = ctx.classification
        return " ".join([
            str(ctx.attempt), c.klass.name,
            "*" if legacy else opt(c.retry_after_s, lambda x: str(to_ticks(x))),
            opt(ctx.prev_sleep_s, lambda x: str(to_ticks(x))),
            "*" if legacy else str(to_ticks(ctx.remaining_s)),
            "*" if legacy else ctx.cause])

    @staticmethod
    def actx(c) -> str:
        cl = c.classification
        return " ".join([
            str(c.attempt), str(to_ticks(c.elapsed_s)),
            opt(cl, lambda x: x.klass.name),
            opt(None if cl is None else cl.retry_after_s, lambda x: str(to_ticks(x))),
            opt(c.exception, exn_ref),
            ("0" if c.result is None and c.decision is AttemptDecision.SUCCESS else opt(c.result, lambda v: str(v.vid))),
            opt(c.decision, lambda d: d.value), opt(c.stop_reason, lambda s: s.value),
            opt(c.cause), opt(c.sleep_s, lambda x: str(to_ticks(x)))])

    @staticmethod
    def tags(tags: dict) -> str:
        err = tags.get("err")
        if err == "TimeoutError" and _PENDING_TIMEOUT[0] is not None:
            err = "XTRANSIENT"          # the library-made TimeoutError stands for the harness's TimeoutError subclass
        return " ".join([opt(tags.get("class")), opt(err, str_tok),
                         opt(tags.get("stop_reason")), opt(tags.get("cause")),
                         opt(tags.get("operation"), str_tok), opt(tags.get("state"))])

    # -- callbacks -----------------------------------------------------------------------------
    def _hangs(self, a: Ans) -> bool:
        """In a case whose attempt timeout FIRES (`timeout_fires`, chosen by wall_seed bits in `build`): an
        operation answer `raise ordinary:<odd id>:TRANSIENT` means the operation hangs until the library's
        timeout gives up on it.  A function of (configuration, wall_seed, answer): replays agree."""
        if not self.__dict__.get("timeout_fires") or self.depth or a.kind != "raise":
            return False
        p = a.a.split(":")
        return p[0] == "ordinary" and p[2] == "TRANSIENT" and int(p[1]) % 2 == 1

    def _hangs_then_cancelled(self, a: Ans) -> bool:
        """… and (async, real event loop) `raise cancelled` means: the operation hangs, the timeout fires, and the
        CALLER cancels the run while the timed-out attempt is still unwinding (asynchronous clean-up)."""
        return bool(self.__dict__.get("timeout_fires") and self.__dict__.get("real_loop") and not self.depth
                    and a.kind == "raise" and a.a == "cancelled")

    def op(self) -> Any:
        self.op_count += 1
        a = self.ask(f"op {self.op_count}", "op", nested_ticks=self._maybe_nested())
        if self._hangs(a):
            _PENDING_TIMEOUT[0] = a.a
            self.release.wait(60)       # (worker thread) the library's timeout abandons us; released after the call
            return None
        if a.kind == "raise":
            raise self._op_exception(a.a)
        return self._val(a.a)

    def _maybe_nested(self) -> int:
        """Re-entrancy: on one of its invocations the operation of an outer call makes a complete call of its own
        through the SAME policy object (its outcome is ignored).  Per-call state must be per call: the outer
        call goes on as if the operation had simply taken that much longer, and the nested call is an ordinary
        call starting at that instant — both are checked against the model as two separate cases."""
        nest_at = 1 + ((self.wall_seed_bits >> 11) % 3)          # first, second or third invocation
        if not self.reentrant or self.depth or self.op_count != nest_at or self.built is None:
            return 0
        if self.__dict__.get("real_loop"):        # asyncio.run() cannot be nested inside a running loop
            return 0
        t0 = self.clock.ticks
        saved = (self.exchanges, self.answers, self.op_count, self.step, self.call_start, self.oracle,
                 self.deliver_throw)
        self.exchanges, self.answers, self.step, self.deliver_throw = [], [], 0, False
        if self.nested_replay is not None:
            self.oracle = self.nested_replay[len(self.nested_runs)] if len(self.nested_runs) < len(self.nested_replay) \
                else self.oracle
        self.depth = 1
        try:
            sr = run_step(self, self.built, self.cfg, "call")
            self.nested_runs.append((t0, self.clock.ticks, sr, self.exchanges, self.answers))
        finally:
            (self.exchanges, self.answers, self.op_count, self.step, self.call_start, self.oracle,
             self.deliver_throw) = saved
            self.depth = 0
        return self.clock.ticks - t0

    def _val(self, vid: int) -> "Val":
        """Same token => same value OBJECT (an operation may hand back the object it returned before)."""
        cache = self.__dict__.setdefault("_val_cache", {})
        if vid == 0:
            return None                   # token 0 is Python's None
        v = cache.get(vid)
        if v is None:
            v = cache[vid] = Val(vid)
        return v

    def _op_exception(self, tok: str) -> BaseException:
        """Same token => same exception OBJECT (an operation may re-raise a cached error)."""
        cache = self.__dict__.setdefault("_op_exc_cache", {})
        e = cache.get(tok)
        if e is None:
            # not with the sync attempt timeout: CPython's `concurrent.futures.Future.result()` itself tests
            # `if self._exception:` and RETURNS None for a falsy exception — the standard library's doing
            e = make_exception(tok, falsy_ok=not self.cfg.has("attempt_timeout"), mixed=True)
            try:
                e._from_op = True  # type: ignore[attr-defined]
            except AttributeError:
                object.__setattr__(e, "_from_op", True)
            if tok.split(":")[0] in ("ordinary", "abort", "exhausted", "circuitOpen"):
                cache[tok] = e
                try:
                    e.__cause__ = _CAUSE_MARK      # `raise X from Y` in the operation: must survive untouched
                except Exception:  # noqa: BLE001
                    pass
        return e

    async def aop(self) -> Any:
        self.op_count += 1
        a = self.ask(f"op {self.op_count}", "op", nested_ticks=self._maybe_nested())
        if self._hangs(a) or self._hangs_then_cancelled(a):
            loop = asyncio.get_running_loop()
            if a.a == "cancelled":
                # timeout at +ATTEMPT_TIMEOUT_VIRTUAL, clean-up lasts 2 more: the caller's cancel lands inside it
                loop.call_later(ATTEMPT_TIMEOUT_VIRTUAL + 1.0, self.main_task.cancel)
            else:
                _PENDING_TIMEOUT[0] = a.a
            try:
                await asyncio.sleep(1.0e6)
            finally:
                await asyncio.sleep(2.0)            # asynchronous clean-up of the abandoned attempt
            raise AssertionError("a hanging operation was resumed")
        if a.kind == "raise" and a.a.split(":")[0] in ("ordinary", "abort", "exhausted", "circuitOpen"):
            raise self._op_exception(a.a)
        await self._araise_or(a, mixed=True)
        return self._val(a.a)

    def _classification(self, a: Ans):
        k = ErrorClass[a.a]
        if a.b is None and (len(self.answers) & 1):
            return k                           # exercise both accepted shapes
        # equal classifications are the SAME object (a classifier returning module-level constants)
        cache = self.__dict__.setdefault("_cls_cache", {})
        key = (k, a.b)
        c = cache.get(key)
        if c is None:
            c = cache[key] = (Classification(klass=k) if a.b is None
                              else Classification(klass=k, retry_after_s=a.b * TICK))
        return c

    def classifier(self, exc: BaseException):
        a = self.ask(f"classify {exn_ref(exc)}", "classify", {"exc": exn_ref(exc)})
        self._raise_or(a)
        return self._classification(a)

    def result_classifier(self, val: Any):
        a = self.ask(f"resultClassify {0 if val is None else val.vid}", "resultClassify")
        self._raise_or(a)
        if a.kind == "noFailure":
            return None
        return self._classification(a)

    def abort_if(self) -> bool:
        a = self.ask("abortIf", "abortIf")
        self._raise_or(a)
        return bool(a.a)

    def _sout(self, tok: str) -> float:
        if tok == "nan":
            return math.nan
        if tok == "inf":
            return math.inf
        if tok == "-inf":
            return -math.inf
        return int(tok) * TICK

    def make_strategy(self, key: str, spec: str, records: bool):
        """`spec` is `ctx`, `legacy` or `sig=r.o.v.kr.ko.vk` (the shape of the callable's signature; the
        model decides the kind from it with `normalizeSig`).  The callable is generated with exactly that
        signature and logs the request according to HOW THE LIBRARY ACTUALLY CALLED IT: one positional
        argument = context-style, three = legacy."""
        env = self

        def ctx_call(ctx):
            a = env.ask(f"strategy {key} ctx {env.bctx(ctx)}", "strategy",
                        {"remaining_s": to_ticks(ctx.remaining_s)})
            env._raise_or(a)
            return env._sout(a.a)

        def legacy_call(attempt, klass, prev):
            prev_t = opt(prev, lambda x: str(to_ticks(x)))
            a = env.ask(f"strategy {key} legacy {attempt} {klass.name} * {prev_t} * *", "strategy", {})
            env._raise_or(a)
            return env._sout(a.a)

        def on_call(args, kwargs):
            if kwargs:
                raise AssertionError(f"strategy {key} called with keywords {sorted(kwargs)}")
            if len(args) == 1:
                return ctx_call(args[0])
            if len(args) == 3:
                return legacy_call(*args)
            raise AssertionError(f"strategy {key} called with {len(args)} positional arguments")

        fn = sig_callable(sig_shape(spec), on_call, method=records)
        if not records:
            return fn

        class Recording:
            __call__ = fn

            def __len__(self):      # a strategy OBJECT may well be falsy (e.g. an empty schedule): the
                return 0            # library must test `is None`, never truthiness

            def record_failure(self, klass=None):
                a = env.ask(f"stratRecordFailure {key} {klass.name}", "stratRecord")
                env._raise_or(a)

            def record_success(self):
                a = env.ask(f"stratRecordSuccess {key}", "stratRecord")
                env._raise_or(a)

        return Recording()

    def make_handler(self, lvl: str):
        def handler(ctx, d):
            a = self.ask(f"sleepHandler {lvl} {self.bctx(ctx)} {to_ticks(d)}", "sleepHandler")
            self._raise_or(a)
            return {"sleep": SleepDecision.SLEEP, "defer": SleepDecision.DEFER,
                    "abort": SleepDecision.ABORT, "other": "bogus"}[a.a]
        return handler

    def make_before_sleep(self, lvl: str):
        if self.is_async and lvl == "call":
            async def ahook(ctx, d):
                a = self.ask(f"beforeSleep {lvl} {self.bctx(ctx)} {to_ticks(d)}", "beforeSleep")
                await self._araise_or(a)
            return ahook

        if self.is_async and (self.wall_seed_bits & 4):
            async def later(ctx, d):
                a = self.ask(f"beforeSleep {lvl} {self.bctx(ctx)} {to_ticks(d)}", "beforeSleep")
                await self._araise_or(a)

            def deferred_hook(ctx, d):
                return _Deferred(later(ctx, d))
            return deferred_hook

        def hook(ctx, d):
            a = self.ask(f"beforeSleep {lvl} {self.bctx(ctx)} {to_ticks(d)}", "beforeSleep")
            self._raise_or(a)
        return hook

    def make_sleeper(self, lvl: str):
        if self.is_async and lvl != "policy":
            async def asleeper(d):
                a = self.ask(f"sleeper {lvl} {to_ticks(d)}", "sleeper", {"d": to_ticks(d)})
                await self._araise_or(a, mixed=True)
            return asleeper

        if self.is_async and (self.wall_seed_bits & 2):
            # a plain function returning an awaitable that is NOT a coroutine (as a Future or an object with
            # __await__ would be): nothing happens unless the library awaits it
            async def later(d):
                a = self.ask(f"sleeper {lvl} {to_ticks(d)}", "sleeper", {"d": to_ticks(d)})
                await self._araise_or(a, mixed=True)

            def deferred_sleeper(d):
                return _Deferred(later(d))
            return deferred_sleeper

        def sleeper(d):
            a = self.ask(f"sleeper {lvl} {to_ticks(d)}", "sleeper", {"d": to_ticks(d)})
            self._raise_or(a, mixed=True)
        return _FalsyCallable(sleeper) if (self.wall_seed_bits & 128) else sleeper

    def _default_sleep(self, d: float) -> None:
        a = self.ask(f"sleeper default {to_ticks(d)}", "sleeper", {"d": to_ticks(d)})
        self._raise_or(a, mixed=True)

    async def _default_async_sleep(self, d: float) -> None:
        a = self.ask(f"sleeper default {to_ticks(d)}", "sleeper", {"d": to_ticks(d)})
        await self._araise_or(a, mixed=True)

    def attempt_start(self, c) -> None:
        a = self.ask(f"attemptStart {self.actx(c)}", "attemptHook")
        self._raise_or(a)

    def attempt_end(self, c) -> None:
        a = self.ask(f"attemptEnd {self.actx(c)}", "attemptHook")
        self._raise_or(a)

    def on_metric(self, event, attempt, sleep_s, tags) -> None:
        a = self.ask(f"metric {event} {attempt} {to_ticks(sleep_s)} {self.tags(tags)}", "metric")
        self._raise_or(a, unprintable=True)

    def on_log(self, event, fields) -> None:
        ra = fields.get("retry_after_s")
        a = self.ask(f"log {event} {fields['attempt']} {to_ticks(fields['sleep_s'])} "
                     f"{self.tags(fields)} {opt(ra, lambda x: str(to_ticks(x)))}", "log")
        self._raise_or(a, unprintable=True)


# --------------------------------------------------------------------------- logged components

def make_budget(env: Env, cfg: LoopCfg):
    if cfg.budget is None:
        return None

    class LoggedBudget(Budget):
        def consume(self, cost: int = 1) -> bool:
            r = super().consume(cost)
            env.log_internal("budgetConsume", f"granted {1 if r else 0}")
            return r

    b = LoggedBudget(max_retries=cfg.budget[0], window_s=cfg.budget[1] * TICK)
    for t in cfg.init_budget:
        b._events.append(t * TICK)
    return b


def make_breaker(env: Env, cfg: LoopCfg):
    if cfg.breaker is None:
        return None
    from redress.circuit import CircuitState

    class LoggedBreaker(CircuitBreaker):
        def allow(self):
            d = super().allow()
            env.log_internal("breakerAllow", f"admit {1 if d.allowed else 0} {d.state.value} {opt(d.event)}")
            return d

        def record_success(self):
            ev = super().record_success()
            env.log_internal("breakerSuccess", f"recorded {opt(ev)} {self.state.value}")
            return ev

        def record_failure(self, klass):
            ev = super().record_failure(klass)
            env.log_internal(f"breakerFailure {klass.name}", f"recorded {opt(ev)} {self.state.value}")
            return ev

        def record_cancel(self):
            super().record_cancel()
            env.log_internal("breakerCancel", f"recorded - {self.state.value}")

        def __len__(self):           # "failures in the window": a breaker OBJECT may be falsy; the library must
            return 0 if (env.wall_seed_bits & 4096) else 1      # test `is None`

    b = cfg.breaker
    trip_on = {ErrorClass[k] for k in b["trip"]}
    class_thresholds = {ErrorClass[k]: v for k, v in b["cls"].items()}
    br = LoggedBreaker(failure_threshold=b["threshold"], window_s=b["window"] * TICK,
                       recovery_timeout_s=b["recovery"] * TICK,
                       trip_on=trip_on, class_thresholds=class_thresholds,
                       clock=env.clock.read)
    if env.wall_seed_bits & 512:
        # the caller goes on using ITS containers (here: empties them, then fills them with nonsense); a
        # breaker that aliased instead of copying would change its behaviour
        trip_on.clear()
        trip_on.update(ErrorClass)
        class_thresholds.clear()
        class_thresholds.update({k: 1 for k in ErrorClass})
    ib = cfg.init_breaker
    if ib is not None:
        br._state = {"closed": CircuitState.CLOSED, "open": CircuitState.OPEN,
                     "half_open": CircuitState.HALF_OPEN}[ib["state"]]
        br._opened_at = None if ib.get("opened_at") is None else ib["opened_at"] * TICK
        br._probe_in_flight = bool(ib.get("probe"))
        from collections import deque
        br._failures = deque(t * TICK for t in ib.get("failures", []))
        br._class_failures = {ErrorClass[k]: deque(t * TICK for t in ts)
                              for k, ts in ib.get("class_failures", {}).items() if ts}
    return br


def breaker_state_tok(br) -> str:
    if br is None:
        return "closed;-;0;-;-"
    fs = ",".join(str(to_ticks(t)) for t in br._failures) or "-"
    cf = ",".join(f"{k.name}:{to_ticks(t)}"
                  for k in sorted(br._class_failures, key=lambda k: CLASSES.index(k.name))
                  for t in br._class_failures[k]) or "-"
    return (f"{br._state.value};{opt(br._opened_at, lambda x: str(to_ticks(x)))};"
            f"{1 if br._probe_in_flight else 0};{fs};{cf}")


def budget_state_tok(b) -> str:
    if b is None:
        return "-"
    try:
        return ",".join(str(to_ticks(t)) for t in b._events) or "-"
    except (TypeError, AttributeError, ValueError):
        return "unreadable"         # the private representation changed: shows as a `state` divergence


# --------------------------------------------------------------------------- building objects

@dataclass
class Built:
    target: Any            # object exposing the entry points
    budget: Any
    breaker: Any
    call_kwargs: dict
    entries: tuple[str, str]   # model entries for (call, execute)


def build(env: Env, cfg: LoopCfg) -> Built:
    is_async = cfg.has("async")
    budget = make_budget(env, cfg)
    breaker = make_breaker(env, cfg)

    strategies = {ErrorClass[k]: env.make_strategy(f"cls:{k}", kind, f"cls:{k}" in cfg.strat_records)
                  for k, kind in cfg.strat_for.items()}
    default = (env.make_strategy("default", cfg.strat_default, "default" in cfg.strat_records)
               if cfg.strat_default is not None else None)
    # `attempt_timeout`: sync only (asyncio.wait_for needs a running loop; the async runners are driven by
    # hand).  The timeout is an hour of REAL time and never fires: the point is that `_call_with_timeout`
    # (worker thread + future) must be transparent for values and for every exception kind.
    extra_kwargs: dict[str, Any] = {}
    if cfg.has("attempt_timeout") and not cfg.has("no_retry") and (not cfg.has("async") or not env.deliver_throw):
        # (async: `asyncio.wait_for` needs a running loop, so those calls are run by `asyncio.run` instead of
        # being driven by hand — possible because nothing suspends when cancellation kinds are simply raised)
        env.real_loop = cfg.has("async")
        # a quarter of these cases: a timeout that FIRES when the operation hangs (`Env._hangs`).  Sync: 0.3 s
        # of REAL time (`future.result(timeout=…)` cannot be virtualised; every other operation answers in
        # microseconds).  Async: 5 s of the VIRTUAL event-loop clock (`VirtualTimeLoop`), no real waiting.
        # (sync, where it costs real time: one more bit)
        env.timeout_fires = (((env.wall_seed_bits >> 14) & 7) == 7 and not env.reentrant
                             and (env.real_loop or bool(env.wall_seed_bits & (1 << 17))))
        extra_kwargs["attempt_timeout_s"] = ((ATTEMPT_TIMEOUT_VIRTUAL if env.real_loop else 0.3)
                                             if env.timeout_fires else 3600.0)
    retry_kwargs: dict[str, Any] = dict(
        **extra_kwargs,
        classifier=env.classifier,
        result_classifier=env.result_classifier if cfg.has("result_classifier") else None,
        strategy=default,
        strategies=strategies if (strategies or default is None) else None,
        sleep=env.make_handler("policy") if cfg.has("p_handler") else None,
        before_sleep=env.make_before_sleep("policy") if cfg.has("p_before_sleep") else None,
        sleeper=env.make_sleeper("policy") if cfg.has("p_sleeper") else None,
        budget=budget,
        deadline_s=cfg.deadline * TICK,
        max_attempts=cfg.max_attempts,
        max_unknown_attempts=cfg.max_unknown,
        per_class_max_attempts={ErrorClass[k]: v for k, v in cfg.per_class.items()} or None,
    )
    fz = (lambda f: None if f is None else _FalsyCallable(f)) if (env.wall_seed_bits & 256) else (lambda f: f)
    retry_kwargs["result_classifier"] = fz(retry_kwargs["result_classifier"])
    if not is_async:                      # (async handler / hook forms are chosen inside make_*)
        retry_kwargs["sleep"] = fz(retry_kwargs["sleep"])
        retry_kwargs["before_sleep"] = fz(retry_kwargs["before_sleep"])
    call_kwargs: dict[str, Any] = dict(
        on_metric=fz(env.on_metric) if cfg.has("metric") else None,
        on_log=fz(env.on_log) if cfg.has("log") else None,
        operation=cfg.operation,
        abort_if=((_FalsyCallable(env.abort_if) if (env.wall_seed_bits & 32) else env.abort_if)
                  if cfg.has("abort_if") else None),
        sleep=env.make_handler("call") if cfg.has("c_handler") else None,
        before_sleep=env.make_before_sleep("call") if cfg.has("c_before_sleep") else None,
        sleeper=env.make_sleeper("call") if cfg.has("c_sleeper") else None,
        on_attempt_start=fz(env.attempt_start) if cfg.has("c_attempt_start") else None,
        on_attempt_end=fz(env.attempt_end) if cfg.has("c_attempt_end") else None,
    )
    hook_kwargs = dict(
        on_attempt_start=fz(env.attempt_start) if cfg.has("p_attempt_start") else None,
        on_attempt_end=fz(env.attempt_end) if cfg.has("p_attempt_end") else None,
    )
    R, P, RP = (AsyncRetry, AsyncPolicy, AsyncRetryPolicy) if is_async else (Retry, Policy, RetryPolicy)

    def construct(cls, with_hooks: bool):
        """the constructor, or — same configuration — `cls.from_config(RetryConfig(...), classifier=...)`;
        for some cases built with a laxer deadline / attempt cap that is tightened to the real value by plain
        attribute assignment afterwards (`policy.deadline`, `policy.max_attempts` are public and are what the
        loop reads: nothing may have been cached at construction)"""
        if (env.wall_seed_bits & 2048) and not getattr(construct, "_inner", False):
            real = {"deadline_s": retry_kwargs["deadline_s"], "max_attempts": retry_kwargs["max_attempts"]}
            if env.wall_seed_bits & (1 << 19):
                # … or the other way round: built with a STRICTER cap / deadline that is relaxed afterwards (nothing
                # derived from the construction-time values may survive, e.g. a per-class table pruned against them)
                retry_kwargs["deadline_s"] = real["deadline_s"] / 2
                retry_kwargs["max_attempts"] = min(real["max_attempts"], 1)
            else:
                retry_kwargs["deadline_s"] = real["deadline_s"] * 50 + 100.0
                retry_kwargs["max_attempts"] = real["max_attempts"] + 7
            # … and, for half of these, the per-class table, the UNKNOWN cap and the budget as well (the public
            # attributes `_RetryState` reads on every failure; `RetryPolicy.__setattr__` must forward them)
            more = bool(env.wall_seed_bits & (1 << 18))
            if more:
                for k in ("per_class_max_attempts", "max_unknown_attempts", "budget"):
                    real[k] = retry_kwargs.get(k)
                pc = retry_kwargs.get("per_class_max_attempts")
                retry_kwargs["per_class_max_attempts"] = ({kk: v + 9 for kk, v in pc.items()} if pc else pc)
                retry_kwargs["max_unknown_attempts"] = None
                retry_kwargs["budget"] = None
            construct._inner = True
            try:
                obj = construct(cls, with_hooks)
            finally:
                construct._inner = False
                retry_kwargs.update(real)
            from datetime import timedelta as _td
            obj.deadline = _td(seconds=real["deadline_s"])
            obj.max_attempts = real["max_attempts"]
            if more:
                obj.per_class_max_attempts = dict(real["per_class_max_attempts"] or {})
                obj.max_unknown_attempts = real["max_unknown_attempts"]
                obj.budget = real["budget"]
            return obj
        hooks = hook_kwargs if with_hooks else {}
        if (env.wall_seed_bits & 64) and not any(v is not None for v in hooks.values()):
            rc = RetryConfig(
                deadline_s=retry_kwargs["deadline_s"], attempt_timeout_s=retry_kwargs.get("attempt_timeout_s"),
                max_attempts=retry_kwargs["max_attempts"], max_unknown_attempts=retry_kwargs["max_unknown_attempts"],
                per_class_max_attempts=retry_kwargs["per_class_max_attempts"],
                default_strategy=retry_kwargs["strategy"], class_strategies=retry_kwargs["strategies"],
                result_classifier=retry_kwargs["result_classifier"], sleep=retry_kwargs["sleep"],
                before_sleep=retry_kwargs["before_sleep"], sleeper=retry_kwargs["sleeper"],
                budget=retry_kwargs["budget"])
            return cls.from_config(rc, classifier=retry_kwargs["classifier"])
        return cls(**retry_kwargs, **hooks)

    def scramble():
        """after construction the caller reuses its own containers for something else"""
        if not (env.wall_seed_bits & 512):
            return
        if isinstance(retry_kwargs.get("strategies"), dict):
            d = retry_kwargs["strategies"]
            junk = (lambda ctx: 12345.0)
            d.clear()
            d.update({k: junk for k in ErrorClass})
        if isinstance(retry_kwargs.get("per_class_max_attempts"), dict):
            d = retry_kwargs["per_class_max_attempts"]
            d.clear()
            d.update({k: 99 for k in ErrorClass})      # (a larger cap: an aliasing policy would over-retry)

    # the classifier (and result classifier) assigned AFTER everything was built, a decoy in their place until then:
    # `retry.classifier` is a public attribute that the loop and the policy read at failure time; nothing may have
    # captured the construction-time value (wall_seed bit 20)
    late_cls = (bool(env.wall_seed_bits & (1 << 20)) and cfg.kind in ("Retry", "Policy", "RetryPolicy")
                and not cfg.has("no_retry"))
    real_cls = (retry_kwargs["classifier"], retry_kwargs["result_classifier"])
    if late_cls:
        def _decoy(_x):
            env.__dict__["stale"] = env.__dict__.get("stale", 0) + 1
            return ErrorClass.UNKNOWN
        retry_kwargs["classifier"] = _decoy
        if real_cls[1] is not None:
            retry_kwargs["result_classifier"] = _decoy

    def _assign_late(component):
        if late_cls:
            component.classifier = real_cls[0]
            if real_cls[1] is not None:
                component.result_classifier = real_cls[1]

    if cfg.kind == "Retry":
        target = construct(R, True)
        scramble()
        _assign_late(target)
        return Built(target, budget, breaker, call_kwargs, ("call", "execute"))
    if cfg.kind == "Policy":
        retry = None if cfg.has("no_retry") else construct(R, True)
        scramble()
        target = P(retry=retry, circuit_breaker=breaker)
        if retry is not None:
            _assign_late(target.retry)
        return Built(target, budget, breaker, call_kwargs, ("pcall", "pexecute"))
    if cfg.kind == "RetryPolicy":
        if env.wall_seed_bits & 16:
            # the same configuration, but sleep / before_sleep / sleeper assigned through the wrapper AFTER
            # construction (RetryPolicy.__setattr__ must forward them to the Retry component)
            late = {k: retry_kwargs[k] for k in ("sleep", "before_sleep", "sleeper") if retry_kwargs.get(k) is not None}
            target = RP(**{k: (None if k in late else v) for k, v in retry_kwargs.items()})
            for k, v in late.items():
                setattr(target, k, v)
        else:
            target = construct(RP, False)
        for k, v in hook_kwargs.items():
            if v is not None:
                setattr(target, k, v)       # policy-level attempt hooks: only assignable, and must be forwarded
        scramble()
        _assign_late(target)
        return Built(target, budget, breaker, call_kwargs, ("pcall", "pexecute"))
    if cfg.kind == "decorator":
        # hooks are fixed at decoration time; only call() exists
        dec_kwargs = dict(retry_kwargs)
        dec_kwargs.update({k: call_kwargs[k] for k in
                           ("on_metric", "on_log", "operation", "abort_if", "on_attempt_start",
                            "on_attempt_end")})
        if is_async:
            async def fn():
                return await env.aop()
        else:
            def fn():
                return env.op()
        if cfg.operation is None:
            fn.__name__ = "fn"
        wrapped = retry_decorator(**dec_kwargs)(fn)
        return Built(wrapped, budget, breaker, {}, ("pcall", "pcall"))
    raise ValueError(cfg.kind)


# --------------------------------------------------------------------------- running

def drive(coro, env: Env):
    """Run a coroutine by hand; at a `Suspend(tok)` throw the named exception into it."""
    try:
        y = coro.send(None)
        while True:
            if isinstance(y, Suspend):
                tok = y.payload
                if tok == "generatorExit":
                    coro.close()
                    raise GeneratorExit()
                y = coro.throw(make_exception(tok))
            else:
                raise AssertionError(f"unexpected suspension {y!r}")
    except StopIteration as stop:
        return stop.value


ATTEMPT_TIMEOUT_VIRTUAL = 5.0


class VirtualTimeLoop(asyncio.SelectorEventLoop):
    """An event loop whose clock moves only when the loop would otherwise block: it jumps to the next timer.
    (`asyncio.wait_for` timeouts fire deterministically and instantly.)"""

    def __init__(self) -> None:
        super().__init__()
        self._vt = 0.0
        real_select = self._selector.select

        def select(timeout=None):
            if timeout is not None and timeout > 0:
                self._vt += timeout
            return real_select(0)

        self._selector.select = select  # type: ignore[method-assign]

    def time(self) -> float:
        return self._vt


def run_virtual(coro, env: Env):
    """`asyncio.run` on a VirtualTimeLoop; the call is `env.main_task` (the caller may cancel it)."""
    loop = VirtualTimeLoop()
    try:
        task = loop.create_task(coro)
        env.main_task = task
        return loop.run_until_complete(task)
    finally:
        env.main_task = None
        try:
            left = [t for t in asyncio.all_tasks(loop) if not t.done()]
            for t in left:
                t.cancel()
            if left:
                loop.run_until_complete(asyncio.gather(*left, return_exceptions=True))
            loop.run_until_complete(loop.shutdown_asyncgens())
        finally:
            loop.close()


def outcome_toks(o: RetryOutcome) -> str:
    return " ".join([
        "outcome", "1" if o.ok else "0", ("0" if o.ok and o.value is None else opt(o.value, lambda v: str(v.vid))),
        opt(o.stop_reason, lambda s: s.value), str(o.attempts), opt(o.last_class, lambda k: k.name),
        opt(o.last_exception, exn_ref), opt(o.last_result, lambda v: str(v.vid)), opt(o.cause),
        str(to_ticks(o.elapsed_s)), opt(o.next_sleep_s, lambda s: str(to_ticks(s)))])


def timeline_lines(o: RetryOutcome, start: int = 0) -> list[str]:
    if o.timeline is None:
        return []
    out = []
    for e in o.timeline.events[start:]:
        out.append(" ".join(["tl", str(e.attempt), e.event, str(to_ticks(e.elapsed_s)),
                             str(to_ticks(e.sleep_s)), opt(e.error_class, lambda k: k.name),
                             opt(e.stop_reason, lambda s: s.value), opt(e.cause)]))
    return out


@dataclass
class StepResult:
    entry: str
    res: str
    tl: list[str]
    notes: dict


def _long_lived_context(env: Env, built: Built, cfg: LoopCfg, ctx_kwargs: dict):
    """`policy.context(...)`; for half of the Retry / RetryPolicy cases ONE context object serves all the calls
    of the script and is created while the policy-level handler / hook / sleeper are still placeholders that
    are replaced right afterwards: a context resolves the policy's attributes when a call is made, not when
    it is created, so the placeholders must never run (`env.stale` counts their calls)."""
    t = built.target
    if not (env.wall_seed_bits & 1024) or cfg.kind not in ("Retry", "RetryPolicy"):
        return t.context(**ctx_kwargs)

    def stale(*_a):
        env.__dict__["stale"] = env.__dict__.get("stale", 0) + 1
        return SleepDecision.SLEEP

    real = {k: getattr(t, k) for k in ("sleep", "before_sleep", "sleeper")}
    for k, v in real.items():
        if v is not None:
            setattr(t, k, stale)
    cm = t.context(**ctx_kwargs)
    for k, v in real.items():
        if v is not None:
            setattr(t, k, v)
    built.__dict__["_cm"] = cm
    return cm


def run_step(env: Env, built: Built, cfg: LoopCfg, which: str) -> StepResult:
    """Perform one call (`which` in {'call','execute'}) on the built object."""
    try:
        return _run_step(env, built, cfg, which)
    finally:
        env.release.set()               # worker threads of fired sync timeouts may finish now
        import threading as _threading
        env.release = _threading.Event()


def _run_step(env: Env, built: Built, cfg: LoopCfg, which: str) -> StepResult:
    env.op_count = 0
    env.call_start = env.clock.ticks
    is_async = cfg.has("async")
    entry = built.entries[0 if which == "call" else 1]
    notes: dict[str, Any] = {}
    kwargs = dict(built.call_kwargs)
    func = env.aop if is_async else env.op
    try:
        if cfg.kind == "decorator":
            r = built.target()
        elif cfg.via_context and which == "call":
            ctx_kwargs = dict(kwargs)
            cm = built.__dict__.get("_cm")
            if cm is None:
                cm = _long_lived_context(env, built, cfg, ctx_kwargs)
            if is_async:
                async def use():
                    async with cm as c:
                        return await c(func)
                r = use()
            else:
                with cm as c:
                    r = c(func)
        elif which == "call":
            r = built.target.call(func, **kwargs)
        else:
            if cfg.has("timeline") and not cfg.has("no_retry"):
                # either the flag or a caller-owned RetryTimeline (which must then be the one that is filled
                # and handed back as outcome.timeline)
                # (ONE timeline object for all the execute() calls of the script: each run must append its own
                # events to it whatever earlier runs left there)
                own = None
                if env.wall_seed_bits & 8:
                    own = env.__dict__.setdefault("_own_timeline", RetryTimeline())
                kwargs["capture_timeline"] = own if own is not None else True
                notes["own_timeline"] = own
                notes["own_timeline_start"] = len(own.events) if own is not None else 0
            r = built.target.execute(func, **kwargs)
        if is_async:
            r = run_virtual(r, env) if env.__dict__.get("real_loop") else drive(r, env)
    except BaseException as e:  # noqa: BLE001 - we are the top of the stack on purpose
        if isinstance(e, (StopDriver, AssertionError)):
            raise
        tb_ok = True
        if getattr(e, "_ref", "").startswith("o") and getattr(e, "_from_op", False):
            # original traceback must still reach the operation's frame
            tb = e.__traceback__
            names = []
            while tb is not None:
                names.append(tb.tb_frame.f_code.co_name)
                tb = tb.tb_next
            tb_ok = any(n in ("op", "aop") for n in names)
            if e.__cause__ is not _CAUSE_MARK:      # the library wrote to the caller's exception object
                tb_ok = False
        notes["tb_ok"] = tb_ok
        notes.pop("own_timeline", None)
        notes.pop("own_timeline_start", None)
        if env.__dict__.get("stale"):
            notes["stale_callbacks"] = env.__dict__.pop("stale")
        return StepResult(entry, "raise " + exn_tok(e), [], notes)
    if env.__dict__.get("stale"):            # the log already shows it: the real callback's exchange is missing
        notes["stale_callbacks"] = env.__dict__.pop("stale")
    if isinstance(r, RetryOutcome):
        own = notes.pop("own_timeline", None)
        start = notes.pop("own_timeline_start", 0)
        if own is not None and r.timeline is not None and r.timeline is not own:
            return StepResult(entry, outcome_toks(r) + " foreign-timeline", timeline_lines(r), notes)
        return StepResult(entry, outcome_toks(r), timeline_lines(r, start if r.timeline is own else 0), notes)
    if isinstance(r, Val):
        return StepResult(entry, f"ret {r.vid}", [], notes)
    if r is None:
        return StepResult(entry, "ret 0", [], notes)
    return StepResult(entry, f"unexpected-return {r!r}", [], notes)


@dataclass
class CaseRun:
    text: str                     # driver input block
    steps: list[StepResult]
    exchanges: list[tuple[int, str, str]]
    final_state: str
    cfg: LoopCfg
    script: list
    post_probe: str | None = None    # C08's observation: after recovery_timeout_s, is the next call admitted?
    nested: list = field(default_factory=list)   # the nested calls made by re-entrant operations, as cases
    stalled: bool = False         # sync, REAL-time attempt timeout of 0.3 s: an operation that was not meant to hang
                                  # was abandoned by the library (the machine stalled) — the case says nothing


def run_case(case_id: str, cfg: LoopCfg, script: list, oracle, wall_seed: int = 0,
             deliver_throw: bool = False, reentrant: bool = False, nested_answers: list | None = None) -> CaseRun:
    """script: list of ('call'|'execute',) / ('advance', n)."""
    env = Env(cfg, oracle, wall_seed)
    env.deliver_throw = deliver_throw
    env.reentrant = bool(reentrant) and cfg.breaker is None and cfg.budget is None
    if nested_answers is not None:
        from .oracle import ReplayOracle as _RO
        env.nested_replay = [_RO(a) for a in nested_answers]
    import json as _json
    try:
        built = build(env, cfg)
    except Exception as e:  # noqa: BLE001 - the library refused a configuration the model accepts
        meta = {"kind": cfg.kind, "via_context": cfg.via_context, "wall_seed": wall_seed,
                "deliver_throw": deliver_throw, "script": [list(s) for s in script]}
        lines = [f"case {case_id}", "# meta " + _json.dumps(meta), cfg.cfg_line(), cfg.init_line()]
        results = []
        for st in script:
            if st[0] == "advance":
                lines.append(f"do advance {st[1]}")
                continue
            results.append(StepResult(st[0], f"raise unexpected:construction-{type(e).__name__}", [], {}))
            lines.append(f"do {st[0]}")
        for i, sr in enumerate(results):
            lines.append(f"r {i} {sr.res}")
        lines.append("end")
        return CaseRun("\n".join(lines) + "\n", results, [], "construction-failed", cfg, script, None)
    env.built = built
    meta = {"kind": cfg.kind, "via_context": cfg.via_context, "wall_seed": wall_seed,
            "deliver_throw": deliver_throw, "script": [list(s) for s in script]}
    lines = [f"case {case_id}", "# meta " + _json.dumps(meta), cfg.cfg_line(), cfg.init_line()]
    results: list[StepResult] = []
    k = 0
    for st in script:
        if st[0] == "advance":
            env.clock.advance(st[1])
            lines.append(f"do advance {st[1]}")
            continue
        env.step = k
        sr = run_step(env, built, cfg, st[0])
        results.append(sr)
        lines.append(f"do {sr.entry}")
        k += 1
    for a in env.answers:
        lines.append("a " + a)
    for (s, req, ans) in env.exchanges:
        lines.append(f"i {s} {req} => {ans}")
    for i, sr in enumerate(results):
        lines.append(f"r {i} {sr.res}")
        for t in sr.tl:
            lines.append(f"rtl {i} {t}")
    lines.append("end")
    final = (f"now={env.clock.ticks} budget={budget_state_tok(built.budget)} "
             f"breaker={breaker_state_tok(built.breaker)}")
    post = None
    if built.breaker is not None and not (cfg.init_breaker or {}).get("probe"):
        # C08 observe_at: no call is outstanding now; once recovery_timeout_s has elapsed the next call
        # must be admitted (done on a throw-away copy of the breaker's state, after `final` was taken)
        import copy
        from redress.circuit import CircuitBreaker as _CB
        b2 = copy.copy(built.breaker)
        b2.__class__ = _CB
        b2._failures = copy.copy(built.breaker._failures)
        b2._class_failures = {k: copy.copy(v) for k, v in built.breaker._class_failures.items()}
        import threading
        b2._lock = threading.Lock()
        t = env.clock.ticks + cfg.breaker["recovery"]
        b2._clock = lambda: t * TICK
        d = b2.allow()
        post = "admitted" if d.allowed else f"rejected:{d.state.value}"
    nested = []
    if env.nested_runs:
        import copy as _copy
        meta["reentrant"] = True
        meta["nested_answers"] = [list(ans) for (_t0, _t1, _sr, _ex, ans) in env.nested_runs]
        lines[1] = "# meta " + _json.dumps(meta)
        for j, (t0, t1, sr, ex, ans) in enumerate(env.nested_runs):
            ncfg = _copy.copy(cfg)
            ncfg.init_now, ncfg.init_budget, ncfg.init_breaker = t0, [], None
            nmeta = {"kind": cfg.kind, "via_context": cfg.via_context, "wall_seed": wall_seed,
                     "deliver_throw": False, "script": [["call"]], "nested_in": case_id}
            nl = [f"case {case_id}_n{j}", "# meta " + _json.dumps(nmeta), ncfg.cfg_line(), ncfg.init_line(),
                  f"do {sr.entry}"]
            nl += ["a " + a for a in ans]
            nl += [f"i {s_} {req} => {an}" for (s_, req, an) in ex]
            nl += [f"r 0 {sr.res}", "end"]
            nfinal = f"now={t1} budget={budget_state_tok(None)} breaker={breaker_state_tok(None)}"
            nested.append(CaseRun("\n".join(nl) + "\n", [sr], ex, nfinal, ncfg, [("call",)], None))
    stalled = bool(_STRAY_TIMEOUT[0] and env.__dict__.get("timeout_fires") and not env.__dict__.get("real_loop"))
    return CaseRun("\n".join(lines) + "\n", results, env.exchanges, final, cfg, script, post, nested, stalled)
