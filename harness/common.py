"""Shared helpers for the correspondence harness.

Run with /venv/bin/python and PYTHONPATH=/repo/src so that the *working tree* of redress is
imported (never a stale install).  Everything here is deterministic given VERIF_SEED.
"""
from __future__ import annotations

import os
import subprocess
import sys
import time as _real_time
from pathlib import Path

VERIF = Path(__file__).resolve().parent.parent
REPO = Path(os.environ.get("REDRESS_REPO", "/repo"))
LEAN_DIR = VERIF / "lean"
DRIVER = LEAN_DIR / ".lake" / "build" / "bin" / "driver"

# One model tick = 1/64 s: exactly representable as a double and as whole microseconds, so every
# clock difference, timedelta conversion and float comparison on the grid is exact.
TICK = 1.0 / 64.0


def to_ticks(x: float) -> int:
    """seconds (on the grid) -> ticks"""
    return round(x / TICK)


def ensure_repo_on_path() -> None:
    src = str(REPO / "src")
    if src not in sys.path:
        sys.path.insert(0, src)


class Shim:
    """Stand-in for a module attribute such as `time` inside one redress module."""

    def __init__(self, _base=None, **attrs):
        self.__dict__.update(attrs)
        self.__dict__["_base"] = _base

    def __getattr__(self, name):              # only reached for names not overridden above
        base = self.__dict__.get("_base")
        if base is None:
            raise AttributeError(name)
        return getattr(base, name)


class VClock:
    """Virtual monotonic clock in integer ticks."""

    def __init__(self, start: int = 0) -> None:
        self.ticks = start

    def read(self) -> float:
        return self.ticks * TICK

    def advance(self, d: int) -> None:
        assert d >= 0
        self.ticks += d


def run_driver(subcmd: str, text: str, timeout: float = 600.0) -> str:
    """Pipe `text` through the compiled Lean driver and return its stdout."""
    for _ in range(240):                      # a concurrent `lake build` re-links the binary
        if DRIVER.exists():
            break
        _real_time.sleep(0.5)
    else:
        raise RuntimeError(f"driver not built: {DRIVER} (run `cd lean && lake build`)")
    p = subprocess.run([str(DRIVER), subcmd], input=text, capture_output=True, text=True,
                       timeout=timeout)
    if p.returncode != 0:
        raise RuntimeError(f"driver {subcmd} failed rc={p.returncode}: {p.stderr[:2000]}")
    return p.stdout


def wall() -> float:
    return _real_time.perf_counter()
