"""Snapshot the theorem names each audit file prints axioms for -> harness/theorems.json.

Run after adding/removing theorems; the check compares the live audit output with this list, so a
theorem that silently disappears is reported as a broken obligation.
"""
import json
import re
from pathlib import Path

LEAN = Path(__file__).resolve().parent.parent / "lean"
out = {}
for p in sorted((LEAN / "Redress" / "Audit").glob("*.lean")) + sorted((LEAN / "Redress" / "Generated").glob("*Audit*.lean")):
    names = re.findall(r"^#print axioms\s+([\w.']+)", p.read_text(), flags=re.M)
    out[str(p.relative_to(LEAN))] = names
(Path(__file__).parent / "theorems.json").write_text(json.dumps(out, indent=1))
print({k: len(v) for k, v in out.items()})
