"""sched.py — deterministic line-level thread scheduler and DFS interleaving explorer (C17).

One real OS thread per logical thread (taken from a small pool); every worker is parked on its own
semaphore and exactly one runs at any time, up to its next *yield point*:

  * before every source line executed in a frame whose file is one of `files`
    (`sys.settrace` line events; frames of other files are not traced at all), and
  * when it tries to take a `CoopLock` that is held (it is then *blocked*: not schedulable until the
    lock is free — the OS thread never blocks on a real lock).

At a yield point the yielding worker itself asks the chooser which thread runs next and hands over
directly (no round trip through a scheduler thread; no OS context switch at all when the same thread
continues).  A *schedule* is the list of thread ids chosen at the successive steps; a run is a pure
function of its schedule; `explore` enumerates schedules by stateless depth-first search
(re-executing from scratch with a longer forced prefix).  Unfinished threads none of which is
schedulable = deadlock.

Two exploration modes:

  * `reduce=False` — PLAIN DFS: every line-level interleaving is executed.
  * `reduce=True`  — DFS with *sleep sets* over a deliberately tiny independence relation: two steps of
    different threads commute iff at least one of them is **silent**.  A step is silent iff, while it
    ran, (a) no instance attribute of the component was read or written except attributes that no
    worker ever writes (the caller's access hook calls `Scheduler.touch()` otherwise), (b) the lock
    was neither taken nor released (a *failed* attempt that blocks is silent), (c) it started and ended
    in the outermost traced frame (steps inside helper frames are never silent), and (d) the
    component's deep state (`snapshot()`) is unchanged.  Every interleaving is then equal, up to
    swapping adjacent steps one of which is silent, to an executed one — same results, same final
    state.  (Residual blind spot, stated in the report: a top-level statement that only *reads* shared
    data through a local alias looks silent.)

Nothing is monkey-patched globally: the caller's `setup(sched)` builds a fresh component and replaces
*that object's* lock by `CoopLock(sched)`.
"""
from __future__ import annotations

import sys
import threading
from dataclasses import dataclass, field
from typing import Any, Callable


class Abort(BaseException):
    """raised inside workers to unwind them when a run is abandoned (deadlock, step bound, pruning)"""


_TLS = threading.local()


def current_tid() -> Any:
    return getattr(_TLS, "tid", None)


class CoopLock:
    """Cooperative stand-in for `threading.Lock` owned by a `Scheduler`.

    Records its holder (a logical thread id, or 'main' outside any worker).  A worker that finds it
    taken yields to the scheduler as *blocked*; it is rescheduled only when the lock is free."""

    def __init__(self, sched: "Scheduler") -> None:
        self.sched = sched
        self.owner: Any = None

    def acquire(self, blocking: bool = True, timeout: float = -1) -> bool:
        s = self.sched
        t = current_tid()
        if t is None:                       # the driving thread (setup / inspection): never contended
            if self.owner is not None:
                raise RuntimeError("CoopLock taken by a worker while used from the main thread")
            self.owner = "main"
            return True
        while self.owner is not None:
            if not blocking:
                return False
            s.events[t].append(("blocked",))
            s.yield_(t, "blocked", self)    # owner == t (self-deadlock) simply never becomes free
        self.owner = t
        s.touched = True
        s.events[t].append(("acq",))
        return True

    def release(self) -> None:
        t = current_tid()
        me = "main" if t is None else t
        if self.owner != me:
            raise RuntimeError(f"CoopLock released by {me!r} but held by {self.owner!r}")
        self.owner = None
        if t is not None:
            self.sched.touched = True
            self.sched.events[t].append(("rel",))

    def locked(self) -> bool:
        return self.owner is not None

    def __enter__(self) -> "CoopLock":
        self.acquire()
        return self

    def __exit__(self, *exc: Any) -> bool:
        self.release()
        return False


# --------------------------------------------------------------------------------------------------
# worker pool (OS threads are reused across runs)
# --------------------------------------------------------------------------------------------------

def _gate() -> Any:
    """a binary semaphore, initially closed: a raw lock (C level; much cheaper than threading.Semaphore)"""
    g = threading.Lock()
    g.acquire()
    return g


def _open(g: Any) -> None:
    try:
        g.release()
    except RuntimeError:        # already open
        pass


_CURRENT: list[Any] = [None]       # the Scheduler of the run in progress


def _dispatch_trace(frame, event, arg):
    s = _CURRENT[0]
    if s is None:
        return None
    return s._global_trace(frame, event, arg)


class _Pool:
    def __init__(self) -> None:
        self.threads: list[threading.Thread] = []
        self.job_gates: list[Any] = []
        self.mutex = threading.Lock()
        self.remaining = 0
        self.all_done = _gate()
        self.job: Callable[[int], None] | None = None

    def ensure(self, n: int) -> None:
        while len(self.threads) < n:
            i = len(self.threads)
            g = _gate()
            self.job_gates.append(g)
            th = threading.Thread(target=self._loop, args=(i, g), daemon=True, name=f"c17-lt{i}")
            self.threads.append(th)
            th.start()

    def _loop(self, i: int, g: Any) -> None:
        _TLS.tid = i
        # Tracing stays switched on in the worker for its whole life and is routed to the scheduler of
        # the current run: toggling sys.settrace per run makes CPython 3.12 re-instrument every code
        # object each time (measured: ~10x slower).
        sys.settrace(_dispatch_trace)
        while True:
            g.acquire()
            if sys.gettrace() is not _dispatch_trace:
                sys.settrace(_dispatch_trace)     # an Abort raised inside the trace function unset it
            try:
                self.job(i)            # type: ignore[misc]
            finally:
                with self.mutex:
                    self.remaining -= 1
                    last = self.remaining == 0
                if last:
                    _open(self.all_done)

    def run(self, n: int, job: Callable[[int], None]) -> None:
        self.ensure(n)
        self.job = job
        self.remaining = n
        for i in range(n):
            self.job_gates[i].release()

    def wait(self, n: int, timeout: float = 30.0) -> bool:
        return self.all_done.acquire(timeout=timeout)


_POOL = _Pool()
HANG_S = 15.0          # a single schedule takes milliseconds


def _abandon_pool() -> None:
    """leave the (daemon) threads of the current pool behind and start with fresh ones"""
    global _POOL
    _POOL = _Pool()


@dataclass
class RunResult:
    trace: list[int]                       # chosen thread id per step
    choices: list[list[int]]               # schedulable threads at each step (sorted)
    results: list[Any]                     # per thread: what its body returned (None if unfinished)
    deadlock: bool = False
    overrun: bool = False                  # step bound hit
    pruned: bool = False                   # abandoned by the chooser (sleep-set blocked): not a complete run
    hung: bool = False                     # a worker blocked outside the scheduler's control (reported as deadlock)
    stuck: list[int] = field(default_factory=list)     # unfinished threads at a deadlock
    errors: list[str] = field(default_factory=list)    # unexpected exceptions in workers
    events: list[list[tuple]] = field(default_factory=list)
    ctx: Any = None


class Scheduler:
    def __init__(self, n: int, files: set[str], chooser: Callable[[int, list[int], Any, bool], Any],
                 max_steps: int = 5000) -> None:
        self.n = n
        self.files = files
        self.chooser = chooser
        self.max_steps = max_steps
        self.sems = [_gate() for _ in range(n)]
        self.main = _gate()
        self.status = ["ready"] * n            # ready | running | blocked | done
        self.blocked_on: list[Any] = [None] * n
        self.aborting = False
        self.events: list[list[tuple]] = [[] for _ in range(n)]
        self.depth = [0] * n                   # nesting of traced frames
        self.top_func: list[Any] = [None] * n  # name of the outermost traced function (the public op)
        self.top_line: list[Any] = [None] * n  # its current line
        self.locks: list[CoopLock] = []
        self.trace: list[int] = []
        self.choices: list[list[int]] = []
        self.last: Any = None
        self.touched = False                   # did the current step do anything visible to others?
        self.deep_at_start = False
        self.snapshot: Callable[[], Any] | None = None
        self._snap: Any = None
        self.outcome: str | None = None        # None | 'finished' | 'deadlock' | 'overrun' | 'pruned' | 'mismatch'

    # -- worker side ---------------------------------------------------------------------------
    def tid(self) -> Any:
        return current_tid()

    def touch(self) -> None:
        self.touched = True

    def holds(self, t: int) -> bool:
        for l in self.locks:
            if l.owner == t:
                return True
        return False

    def _step_silent(self, t: Any) -> bool:
        """was the step that just ended (by thread t) silent?"""
        if t is None:
            return True
        silent = not self.touched and not self.deep_at_start and self.depth[t] <= 1
        if self.snapshot is not None:
            snap = self.snapshot()
            if snap != self._snap:
                silent = False
                self._snap = snap
        return silent

    def _pick(self, me: Any) -> Any:
        """called by the thread whose step just ended (or by the driver at the start): choose who runs"""
        n = self.n
        prev_silent = self._step_silent(self.last if self.trace else None)
        runnable = [t for t in range(n)
                    if self.status[t] == "ready"
                    or (self.status[t] == "blocked" and self.blocked_on[t].owner is None)]
        k = len(self.trace)
        if not runnable:
            if any(self.status[t] != "done" for t in range(n)):
                self.outcome = "deadlock"
            else:
                self.outcome = "finished"
            self.chooser(k, [], self.last, prev_silent)
            return None
        if k >= self.max_steps:
            self.outcome = "overrun"
            return None
        t = self.chooser(k, runnable, self.last, prev_silent)
        if t is None:
            self.outcome = "pruned"
            return None
        if t not in runnable:
            self.outcome = "mismatch"
            return None
        self.trace.append(t)
        self.choices.append(runnable)
        self.last = t
        self.touched = False
        self.deep_at_start = self.depth[t] > 1
        return t

    def yield_(self, t: int, status: str = "ready", lock: Any = None) -> None:
        if self.aborting:              # e.g. a `finally:` line executed while the Abort unwinds the thread
            raise Abort()
        self.status[t] = status
        self.blocked_on[t] = lock
        nxt = self._pick(t)
        if nxt != t:
            if nxt is None:
                self.main.release()
            else:
                self.sems[nxt].release()
            self.sems[t].acquire()
            if self.aborting:
                raise Abort()
        self.status[t] = "running"
        self.blocked_on[t] = None

    def _global_trace(self, frame, event, arg):
        if event == "call" and frame.f_code.co_filename in self.files:
            t = current_tid()
            if t is None or t >= self.n or self.status[t] != "running":
                return None
            self.depth[t] += 1
            if self.depth[t] == 1:
                self.top_func[t] = frame.f_code.co_name
                self.top_line[t] = None
            return self._local_trace
        return None

    def _local_trace(self, frame, event, arg):
        if self.aborting:
            return None
        if event == "line":
            t = current_tid()
            d = self.depth[t]
            if d == 1:
                self.top_line[t] = frame.f_lineno
            self.events[t].append(("line", frame.f_code.co_name, frame.f_lineno, d, self.holds(t)))
            self.yield_(t)
        elif event == "return":
            t = current_tid()
            self.depth[t] -= 1
            if self.depth[t] == 0:
                self.top_func[t] = None
                self.top_line[t] = None
        return self._local_trace

    # -- driving side --------------------------------------------------------------------------
    def run(self, bodies: list[Callable[[int], Any]], ctx: Any) -> RunResult:
        n = self.n
        results: list[Any] = [None] * n
        errors: list[str] = []
        if self.snapshot is not None:
            self._snap = self.snapshot()

        def job(t: int) -> None:
            try:
                self.sems[t].acquire()
                if self.aborting:
                    return
                self.status[t] = "running"
                results[t] = bodies[t](t)
            except Abort:
                return
            except BaseException as e:     # noqa: BLE001 — must never kill the run silently
                errors.append(f"thread {t}: {type(e).__name__}: {e}")
            finally:
                self.status[t] = "done"
            # the step that finished this thread has ended: hand over
            if not self.aborting:
                nxt = self._pick(t)
                if nxt is None:
                    self.main.release()
                else:
                    self.sems[nxt].release()

        _CURRENT[0] = self
        _POOL.run(n, job)
        first = self._pick(None)
        if first is None:
            self.main.release()
        else:
            self.sems[first].release()
        hung = not self.main.acquire(timeout=HANG_S)
        if hung:
            # a worker is blocked on something the scheduler does not control (e.g. the code under test swapped
            # the cooperative lock for a real `threading.Lock` and now waits on it): nothing can be scheduled
            # any more — for the program under test that is a deadlock
            self.outcome = "deadlock"
        res = RunResult(self.trace, self.choices, results, events=self.events, ctx=ctx)
        if self.outcome == "deadlock":
            res.deadlock = True
            res.stuck = [t for t in range(n) if self.status[t] != "done"]
        elif self.outcome == "overrun":
            res.overrun = True
        elif self.outcome == "pruned":
            res.pruned = True
        elif self.outcome == "mismatch":
            errors.append(f"replay mismatch at step {len(self.trace)}: chosen thread not schedulable")
        if any(self.status[t] != "done" for t in range(n)):
            self.aborting = True
            for t in range(n):
                _open(self.sems[t])
        if hung:
            res.hung = True
            _abandon_pool()            # its stuck thread can never be reused
        elif not _POOL.wait(n):
            errors.append("a worker did not terminate")
            _abandon_pool()
        _CURRENT[0] = None
        res.errors = errors
        return res


# --------------------------------------------------------------------------------------------------
# choosers
# --------------------------------------------------------------------------------------------------

class FixedSchedule:
    """replay: follow `prefix`, then stay on the same thread / lowest id"""

    def __init__(self, prefix: list[int]) -> None:
        self.prefix = list(prefix)

    def __call__(self, k: int, runnable: list[int], last: Any, prev_silent: bool) -> Any:
        if not runnable:
            return None
        if k < len(self.prefix):
            return self.prefix[k]
        return last if last in runnable else runnable[0]


class DFS:
    """stateless depth-first enumeration of schedules, optionally with sleep sets"""

    def __init__(self, reduce: bool, bound: int | None = None) -> None:
        self.reduce = reduce
        # `bound`: only schedules with at most that many PRE-EMPTIONS (switching away from a thread that could
        # have continued); every line-level interleaving within the bound is executed — no independence
        # relation, hence no blind spot for shared data reached through a local alias
        self.bound = bound
        self.frames: list[dict] = []       # per depth: enabled, Z (sleeping: tid -> silent?), done (tid -> silent?), chosen
        self.prefix: list[int] = []

    @staticmethod
    def _cost(f: dict, t: int) -> int:
        return 1 if (f.get("last") in f["enabled"] and t != f.get("last")) else 0

    def _within(self, f: dict, t: int) -> bool:
        return self.bound is None or f.get("used", 0) + self._cost(f, t) <= self.bound

    def __call__(self, k: int, runnable: list[int], last: Any, prev_silent: bool) -> Any:
        if k > 0:
            pf = self.frames[k - 1]
            pf["done"][pf["chosen"]] = prev_silent
        if not runnable:
            return None
        if k < len(self.prefix):
            f = self.frames[k]
            if f["enabled"] != runnable:
                return -1                       # non-deterministic replay: reported as a mismatch
            f["chosen"] = self.prefix[k]
            return self.prefix[k]
        del self.frames[k:]
        Z: dict[int, bool] = {}
        if self.reduce and k > 0:
            pf = self.frames[k - 1]
            tp = pf["chosen"]
            for u, s in list(pf["Z"].items()) + [(u, s) for u, s in pf["done"].items() if u != tp]:
                if s or prev_silent:
                    Z[u] = s
        used = 0
        if k > 0:
            pf = self.frames[k - 1]
            used = pf.get("used", 0) + self._cost(pf, pf["chosen"])
        nf = {"enabled": runnable, "Z": Z, "done": {}, "chosen": None, "last": last, "used": used}
        cands = [t for t in runnable if t not in Z and self._within(nf, t)]
        if not cands:
            self.frames.append(nf)
            return None
        t = last if last in cands else cands[0]
        nf["chosen"] = t
        self.frames.append(nf)
        return t

    def next_prefix(self) -> list[int] | None:
        k = len(self.frames) - 1
        while k >= 0:
            f = self.frames[k]
            if f["chosen"] is not None and f["chosen"] not in f["done"]:
                f["done"][f["chosen"]] = False      # abandoned before its step ended: treat as not silent
            cands = [t for t in f["enabled"] if t not in f["Z"] and t not in f["done"] and self._within(f, t)]
            if cands:
                self.prefix = [fr["chosen"] for fr in self.frames[:k]] + [cands[0]]
                del self.frames[k + 1:]
                return self.prefix
            k -= 1
        return None


def run_once(setup: Callable[[Scheduler], Any], make_bodies: Callable[[Any], list[Callable[[int], Any]]],
             n: int, files: set[str], chooser: Any, max_steps: int = 5000) -> RunResult:
    """one run; `chooser` is a list (forced schedule prefix) or a chooser object"""
    if isinstance(chooser, list):
        chooser = FixedSchedule(chooser)
    sched = Scheduler(n, files, chooser, max_steps)
    ctx = setup(sched)
    return sched.run(make_bodies(ctx), ctx)


def explore(setup: Callable[[Scheduler], Any], make_bodies: Callable[[Any], list[Callable[[int], Any]]],
            n: int, files: set[str], on_run: Callable[[RunResult], bool | None],
            max_schedules: int = 100000, max_steps: int = 5000, reduce: bool = False,
            bound: int | None = None) -> tuple[int, int, bool]:
    """DFS over schedules (all of them, or one per class modulo silent steps if `reduce`).
    `on_run(result)` is called for every COMPLETE run (and for deadlocks / overruns) and may return True
    to stop early.  Returns (complete runs, pruned runs, exhaustive?)."""
    dfs = DFS(reduce, bound)
    count = pruned = 0
    while True:
        r = run_once(setup, make_bodies, n, files, dfs, max_steps)
        if any(e.startswith("replay mismatch") for e in r.errors):
            on_run(r)
            return count, pruned, False
        if r.pruned:
            pruned += 1
            stop = False
            if r.errors:
                on_run(r)
        else:
            count += 1
            stop = on_run(r)
        if stop:
            return count, pruned, False
        if dfs.next_prefix() is None:
            return count, pruned, True
        if count + pruned >= max_schedules:
            return count, pruned, False


def context_switches(trace: list[int]) -> int:
    return sum(1 for a, b in zip(trace, trace[1:]) if a != b)
