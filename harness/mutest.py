"""Apply a seeded change to /repo, run the given checks, undo it.  Usage:
   python harness/mutest.py <patch.diff> C01 [C03 ...] [--tier quick]
Prints one line per check: exit code and the VIOLATION lines.  /repo is restored even on error."""
import subprocess
import sys
from pathlib import Path

ROOT = Path(__file__).resolve().parent.parent


def main() -> int:
    args = sys.argv[1:]
    tier = "quick"
    if "--tier" in args:
        i = args.index("--tier")
        tier = args[i + 1]
        del args[i:i + 2]
    patch, props = args[0], args[1:]
    st = subprocess.run(["git", "-C", "/repo", "status", "--porcelain"], capture_output=True, text=True).stdout
    if st.strip():
        print("refusing: /repo is not clean:\n" + st)
        return 2
    ap = subprocess.run(["git", "-C", "/repo", "apply", patch], capture_output=True, text=True)
    if ap.returncode != 0:
        print("patch does not apply:", ap.stderr)
        return 2
    try:
        for p in props:
            r = subprocess.run([str(ROOT / "check"), p, "--tier", tier], cwd=ROOT, capture_output=True, text=True)
            lines = [ln for ln in r.stdout.splitlines() if ln.startswith(("VIOLATION", "KNOWN", "[check"))]
            print(f"{p}: exit={r.returncode}")
            for ln in lines[:6]:
                print("   ", ln[:220])
    finally:
        subprocess.run(["git", "-C", "/repo", "checkout", "--", "."], check=True)
        # evidence files were rewritten by the mutated runs: restore the committed ones
        subprocess.run(["git", "-C", str(ROOT), "checkout", "--", "evidence"], capture_output=True)
    return 0


if __name__ == "__main__":
    sys.exit(main())
