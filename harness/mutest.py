"""Run checks against a seeded change WITHOUT touching /repo: the change is applied in a scratch
worktree and the checks are pointed at it with REDRESS_REPO.  Usage:
   python harness/mutest.py <worktree> <patch.diff> C01 [C03 ...] [--tier quick] [--demo demo.py]
Prints: test-suite summary with the change, demo exit codes with/without the change, and for each
check its exit code and VIOLATION lines.  The worktree is restored afterwards."""
import os
import subprocess
import sys
from pathlib import Path

ROOT = Path(__file__).resolve().parent.parent


def sh(cmd, cwd=None, env=None, timeout=3000):
    return subprocess.run(cmd, cwd=cwd, env=env, capture_output=True, text=True, timeout=timeout)


def main() -> int:
    args = sys.argv[1:]
    tier, demo = "quick", None
    for flag in ("--tier", "--demo"):
        if flag in args:
            i = args.index(flag)
            if flag == "--tier":
                tier = args[i + 1]
            else:
                demo = args[i + 1]
            del args[i:i + 2]
    wt, patch, props = args[0], args[1], args[2:]
    env = dict(os.environ, REDRESS_REPO=wt, PYTHONPATH=f"{wt}/src", VERIF_EVIDENCE_DIR="/tmp/mutest_evidence")
    sh(["git", "-C", wt, "checkout", "--", "."])
    if demo:
        r = sh(["/venv/bin/python", demo], cwd=wt, env=env)
        print(f"demo without change: exit={r.returncode}")
    ap = sh(["git", "-C", wt, "apply", patch])
    if ap.returncode != 0:
        print("patch does not apply:", ap.stderr)
        return 2
    try:
        t = sh(["/venv/bin/python", "-m", "pytest", "-q", "-p", "no:cacheprovider", "-x"], cwd=wt, env=env)
        print("suite with change:", [ln for ln in t.stdout.splitlines() if " passed" in ln or " failed" in ln][-1:])
        if demo:
            r = sh(["/venv/bin/python", demo], cwd=wt, env=env)
            print(f"demo with change: exit={r.returncode}")
        for p in props:
            r = sh([str(ROOT / "check"), p, "--tier", tier], cwd=ROOT, env=env)
            lines = [ln for ln in r.stdout.splitlines() if ln.startswith(("VIOLATION", "KNOWN", "[check"))]
            print(f"{p}: exit={r.returncode}")
            for ln in lines[:4]:
                print("   ", ln[:200])
            if r.returncode not in (0, 1):
                print(r.stdout[-800:], r.stderr[-800:])
    finally:
        sh(["git", "-C", wt, "checkout", "--", "."])
        # C17's translator rewrote the generated Lean file from the mutated tree: regenerate from /repo
        sh(["/venv/bin/python", str(ROOT / "harness" / "extract_locks.py"), "--repo", "/repo", "--out",
            str(ROOT / "lean" / "Redress" / "Generated" / "LockShape.lean")])
        sh(["/venv/bin/python", str(ROOT / "harness" / "extract_forwarding.py"), "--repo", "/repo", "--out",
            str(ROOT / "lean" / "Redress" / "Generated" / "Forwarding.lean")])
    return 0


if __name__ == "__main__":
    sys.exit(main())
