"""Store a confirmed seeded change: python harness/store_seed.py <worktree> <pid> <letter> <change> <needs> <detected_by>
copies <worktree>/_out/<letter>.diff and demo_<letter>.py to /verif/seeded/<pid>_<letter>/ and writes meta.json."""
import json
import shutil
import sys
from pathlib import Path

ROOT = Path(__file__).resolve().parent.parent
wt, pid, letter, change, needs, detected = sys.argv[1:7]
d = ROOT / "seeded" / f"{pid}_{letter}"
d.mkdir(parents=True, exist_ok=True)
shutil.copy(f"{wt}/_out/{letter}.diff", d / "patch.diff")
shutil.copy(f"{wt}/_out/demo_{letter}.py", d / "demo.py")
json.dump({"breaks": pid, "change": change, "needs_to_manifest": needs,
           "confirmed": "scratch worktree: suite 225 passed / 5 skipped with the change; demo exits 0 without and 1 with it",
           "ran": f"python harness/mutest.py {wt} seeded/{pid}_{letter}/patch.diff {pid} --demo seeded/{pid}_{letter}/demo.py",
           "detected_by": detected}, open(d / "meta.json", "w"), indent=1)
print("stored", d)
