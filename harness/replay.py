"""./check Cxx --replay <file>: re-run a stored case on the implementation and the model."""
from __future__ import annotations

import importlib
import sys
from pathlib import Path


def main(pid: str, path: str) -> int:
    text = Path(path).read_text()
    body = "\n".join(line for line in text.splitlines() if not line.startswith("# property")
                     and not line.startswith("# signature") and not (line.startswith("# ") and "meta" not in line))
    if "\ncfg " in "\n" + body and "case " in body:
        from .families.loop import compare, parse_driver_output
        from .loopenv import LoopCfg, run_case
        from .oracle import ReplayOracle
        from .common import run_driver
        cfg, meta, answers = LoopCfg.from_case_text(body)
        script = [tuple(s) for s in meta.get("script", [["call"]])]
        cr = run_case("replay", cfg, script, ReplayOracle(answers), meta.get("wall_seed", 0),
                      meta.get("deliver_throw", False), reentrant=meta.get("reentrant", False),
                      nested_answers=meta.get("nested_answers"))
        out = run_driver("loop", cr.text)
        d = parse_driver_output(out)["replay"]
        v = compare(cr, d)
        print(cr.text)
        print(out)
        print("agree:", v.agree, "| first divergence:", v.first_div)
        bad = [m for m in v.monitor_fail if m[0] == pid]
        for m in v.monitor_fail:
            print("monitor false on implementation:", m)
        if bad:
            print(f"VIOLATION property={pid} replay={path}")
            return 1
        return 0 if v.agree else 1
    # component families provide their own replay
    for fam in ("breaker_ops", "budget_ops", "strategies", "classifiers", "retry_after", "threads", "sigs"):
        try:
            mod = importlib.import_module(f"harness.families.{fam}")
        except Exception:  # noqa: BLE001
            continue
        if hasattr(mod, "replay") and mod.replay(text) is not None:
            return int(bool(mod.replay(text)))
    print("replay file (not a loop case); content follows:\n" + text)
    return 0
