"""Oracles: who answers the callbacks the library makes.

RandomOracle  - boundary-biased on-demand choices from one PRNG
ReplayOracle  - replays a recorded answer list
DfsOracle     - stateless DFS over a reduced alphabet (small-scope exhaustive)
"""
from __future__ import annotations

import random
from dataclasses import dataclass, field

from .loopenv import CLASSES, Ans, StopDriver, parse_ans

CANCEL_KINDS = ["cancelled", "keyboardInterrupt", "systemExit", "generatorExit"]


@dataclass
class Profile:
    p_success: float = 0.25
    p_result_fail: float = 0.6
    faults: str = "none"           # none | hooks | all
    p_fault: float = 0.04
    p_hook_fault: float = 0.15
    p_abort: float = 0.04
    class_weights: dict = field(default_factory=dict)
    quiet: bool = False            # time passes only in op and sleeper
    honest_sleeper: bool = False
    p_defer: float = 0.1
    p_habort: float = 0.08
    p_other: float = 0.02
    p_retry_after: float = 0.15
    p_nested: float = 0.02         # op raises abort / exhausted / circuitOpen
    p_cancel: float = 0.02


def boundary(rng: random.Random, center: int, big: int = 1000) -> int:
    c = [0, 1, 2, max(center - 1, 0), max(center, 0), max(center, 0) + 1, big, rng.randrange(0, 12)]
    return rng.choice(c)


class RandomOracle:
    def __init__(self, rng: random.Random, prof: Profile) -> None:
        self.rng = rng
        self.p = prof
        self.next_id = 1
        self.kinds: dict[str, int] = {}
        self.raised: dict[str, int] = {}

    def fresh(self) -> int:
        i = self.next_id
        self.next_id += 1
        return i

    def _dur(self, info: dict, active: bool) -> int:
        if self.p.quiet and not active:
            return 0
        r = self.rng.random()
        if not active:
            return 0 if r < 0.85 else self.rng.choice([1, 2, max(info["remaining"], 0), max(info["remaining"], 0) + 1])
        if r < 0.35:
            return 0
        return boundary(self.rng, info["remaining"])

    def _klass(self) -> str:
        w = self.p.class_weights
        names = CLASSES
        weights = [w.get(k, 1.0) for k in names]
        return self.rng.choices(names, weights)[0]

    def _fault(self, kind: str, info: dict) -> Ans | None:
        p = self.p
        hook = kind in ("metric", "log", "beforeSleep")
        if p.faults == "none":
            return None
        if p.faults == "hooks" and not hook:
            return None
        pf = p.p_hook_fault if hook else p.p_fault
        if self.rng.random() >= pf:
            return None
        r = self.rng.random()
        if hook and p.faults == "hooks":
            tok = f"ordinary:{self.fresh()}:{self._klass()}"
        elif r < 0.6:
            tok = f"ordinary:{self.fresh()}:{self._klass()}"
        elif r < 0.8:
            tok = self.rng.choice(CANCEL_KINDS)
        elif r < 0.88:
            tok = f"abort:{self.fresh()}"
        elif r < 0.94:
            tok = f"exhausted:{self.fresh()}:{self.rng.choice(['-'] + CLASSES)}"
        else:
            tok = f"circuitOpen:{self.fresh()}"
        self.raised[kind + ":" + tok.split(":")[0]] = self.raised.get(kind + ":" + tok.split(":")[0], 0) + 1
        return Ans("raise", tok, dur=self._dur(info, False))

    def choose(self, kind: str, info: dict) -> Ans:
        self.kinds[kind] = self.kinds.get(kind, 0) + 1
        rng, p = self.rng, self.p
        if kind != "op":
            f = self._fault(kind, info)
            if f is not None:
                return f
        if kind == "op":
            d = self._dur(info, True)
            if info.get("timeout_fires"):
                # a case whose attempt timeout can fire (Env._hangs): make the two answers that mean "hangs" likely
                x = rng.random()
                if x < 0.3:
                    i = self.fresh()
                    if i % 2 == 0:
                        i = self.fresh()        # odd ids hang
                    return Ans("raise", f"ordinary:{i}:TRANSIENT", dur=d)
                if x < 0.45 and info.get("timeout_fires_async"):
                    return Ans("raise", "cancelled", dur=d)
            r = rng.random()
            if r < p.p_cancel and p.faults == "all":
                return Ans("raise", rng.choice(CANCEL_KINDS), dur=d)
            last = getattr(self, "_last_nested", None)
            if last is not None and p.faults != "none" and rng.random() < 0.25:
                return Ans("raise", last, dur=d)           # the very same error OBJECT again (Env caches them)
            if r < p.p_cancel + p.p_nested and p.faults != "none":
                t = rng.choice(["abort", "exhausted", "circuitOpen"])
                tok = f"{t}:{self.fresh()}" + (f":{rng.choice(['-'] + CLASSES)}" if t == "exhausted" else "")
                self._last_nested = tok
                return Ans("raise", tok, dur=d)
            if rng.random() < p.p_success:
                if rng.random() < 0.06:
                    return Ans("value", 0, dur=d)      # the operation returns None (token 0)
                return Ans("value", self.fresh(), dur=d)
            if info.get("result_classifier") and rng.random() < 0.5:
                # sometimes the operation returns the very object it returned before (a poller handing back one
                # mutable job record): same token => same Python object (Env caches values)
                last = getattr(self, "_last_val", None)
                if last is not None and rng.random() < 0.15:
                    return Ans("value", last, dur=d)
                self._last_val = self.fresh()
                return Ans("value", self._last_val, dur=d)
            if kind == "op":
                # sometimes the operation re-raises the very exception object it raised before (a
                # latched / cached error): same token => same Python object (Env caches op exceptions)
                last = getattr(self, "_last_op_exc", None)
                if last is not None and rng.random() < 0.12:
                    return Ans("raise", last, dur=d)
                tok = f"ordinary:{self.fresh()}:{self._klass()}"
                self._last_op_exc = tok
                return Ans("raise", tok, dur=d)
            return Ans("raise", f"ordinary:{self.fresh()}:{self._klass()}", dur=d)
        if kind in ("classify", "resultClassify"):
            d = self._dur(info, False)
            if kind == "resultClassify" and (rng.random() > p.p_result_fail
                                             or str(info.get("req", "")).endswith(" 0")):
                # None (token 0) is never classified as a failure here: `last_result=None` could not be told
                # from "no result" in the library's own API
                return Ans("noFailure", dur=d)
            ra = None
            if rng.random() < p.p_retry_after:
                ra = rng.choice([-3, 0, 1, 5, max(info["remaining"], 0), max(info["remaining"], 0) + 2, 400])
            return Ans("klass", self._klass(), ra, dur=d)
        if kind == "abortIf":
            return Ans("bool", rng.random() < p.p_abort, dur=self._dur(info, False))
        if kind == "strategy":
            rem = info.get("remaining_s", max(info["remaining"], 0))
            r = rng.random()
            if r < 0.12:
                tok = rng.choice(["nan", "inf", "-inf", "-1", "-50"])
            else:
                tok = str(rng.choice([0, 1, 2, 3, max(rem - 1, 0), rem, rem + 1, rem + 50, rng.randrange(0, 20)]))
            return Ans("delay", tok, dur=self._dur(info, False))
        if kind == "sleepHandler":
            r = rng.random()
            if r < p.p_defer:
                dec = "defer"
            elif r < p.p_defer + p.p_habort:
                dec = "abort"
            elif r < p.p_defer + p.p_habort + p.p_other:
                dec = "other"
            else:
                dec = "sleep"
            return Ans("decision", dec, dur=self._dur(info, False))
        if kind == "sleeper":
            d = info.get("d", 0)
            if p.honest_sleeper:
                dur = d + rng.choice([0, 0, 0, 1, 3])
            else:
                dur = rng.choice([d, d, d, d + 1, max(d - 1, 0), 0, d + 40])
            if p.faults == "all" and rng.random() < p.p_cancel:
                return Ans("raise", rng.choice(CANCEL_KINDS), dur=dur)
            return Ans("unit", dur=dur)
        # stratRecord, attemptHook, metric, log, beforeSleep
        return Ans("unit", dur=self._dur(info, False))


class ReplayOracle:
    def __init__(self, answers: list[str]) -> None:
        self.answers = [parse_ans(a) for a in answers]
        self.i = 0

    def choose(self, kind: str, info: dict) -> Ans:
        if self.i >= len(self.answers):
            raise StopDriver("replay exhausted")
        a = self.answers[self.i]
        self.i += 1
        return a


class DfsOracle:
    """One run of a stateless DFS: follow `prefix`, then take alternative 0; record fan-outs."""

    def __init__(self, prefix: list[int], alphabet) -> None:
        self.prefix = prefix
        self.alphabet = alphabet
        self.path: list[tuple[int, int]] = []   # (chosen index, number of alternatives)
        self.next_id = 1

    def fresh(self) -> int:
        i = self.next_id
        self.next_id += 1
        return i

    def choose(self, kind: str, info: dict) -> Ans:
        alts = self.alphabet(kind, info, self)
        pos = len(self.path)
        idx = self.prefix[pos] if pos < len(self.prefix) else 0
        if idx >= len(alts):
            idx = 0
        self.path.append((idx, len(alts)))
        a = alts[idx]
        return a() if callable(a) else a


def next_prefix(path: list[tuple[int, int]]) -> list[int] | None:
    """Successor in DFS order, or None when the space is exhausted."""
    p = list(path)
    while p:
        idx, n = p.pop()
        if idx + 1 < n:
            return [i for i, _ in p] + [idx + 1]
    return None
