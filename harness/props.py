"""Fill harness.registry.REGISTRY: which property is decided by which theorems and families."""
from __future__ import annotations

import json
from pathlib import Path

from .registry import LOOP_NOTE, REGISTRY

_T = json.loads((Path(__file__).parent / "theorems.json").read_text())


def _th(*audits: str) -> list[str]:
    out: list[str] = []
    for a in audits:
        out += _T.get(a, [])
    return out


# properties whose machinery is finished and reviewed (everything else is listed under not_applicable
# in MANIFEST.json with the reason "in progress")
READY = {"C01", "C02", "C03", "C04", "C05", "C06", "C07", "C08", "C09", "C10", "C11", "C12", "C13", "C14", "C15", "C16", "C17", "C18", "C19", "C20"}


def _reg(pid, modules, audits, families, note, partial="", assumptions=None, pre_build=None):
    if pid not in READY:
        return
    REGISTRY[pid] = {
        "modules": modules, "audit": audits, "theorems": _th(*audits), "families": families,
        "ready": True, "note": note, "partial": partial, "assumptions": assumptions or [],
        "design_ref": f"DESIGN.md §5 {pid}", "pre_build": pre_build,
    }


def _have(*audits: str) -> bool:
    lean = Path(__file__).resolve().parent.parent / "lean"
    return all((lean / a).exists() and _T.get(a) for a in audits)


# ---------------------------------------------------------------- loop / policy properties
_LOOP = {
    "C01": (["Redress.Props.C01"], ["Redress/Audit/C01.lean"]),
    "C02": (["Redress.Props.C02", "Redress.Props.C02Tail"], ["Redress/Audit/C02.lean", "Redress/Audit/C02Tail.lean"]),
    "C03": (["Redress.Props.C03"], ["Redress/Audit/C03.lean"]),
    "C04": (["Redress.Props.C04", "Redress.Props.C04NR", "Redress.Props.C04Stop"],
            ["Redress/Audit/C04.lean", "Redress/Audit/C04NR.lean", "Redress/Audit/C04Stop.lean"]),
    "C05": (["Redress.Props.C05", "Redress.Props.C05Sig", "Redress.Props.C05Defer"],
            ["Redress/Audit/C05.lean", "Redress/Audit/C05Sig.lean", "Redress/Audit/C05Defer.lean"]),
    "C08": (["Redress.Props.C08"], ["Redress/Audit/C08.lean"]),
    "C09": (["Redress.Props.C09", "Redress.Props.C09Once"], ["Redress/Audit/C09.lean", "Redress/Audit/C09Once.lean"]),
    "C11": (["Redress.Props.C11", "Redress.Props.C11NR", "Redress.Props.C11H"],
            ["Redress/Audit/C11.lean", "Redress/Audit/C11NR.lean", "Redress/Audit/C11H.lean"]),
    "C12": (["Redress.Props.C12", "Redress.Props.C12Fwd", "Redress.Generated.Forwarding"],
            ["Redress/Audit/C12.lean", "Redress/Audit/C12Fwd.lean"]),
    "C13": (["Redress.Props.C13", "Redress.Props.C13Poll"], ["Redress/Audit/C13.lean", "Redress/Audit/C13Poll.lean"]),
    "C14": (["Redress.Props.C14"], ["Redress/Audit/C14.lean"]),
    "C15": (["Redress.Props.C15"], ["Redress/Audit/C15.lean"]),
    "C16": (["Redress.Props.C16", "Redress.Props.C16Cut"], ["Redress/Audit/C16.lean", "Redress/Audit/C16Cut.lean"]),
}
_LOOP_PARTIAL = {
    "C04": "the traceback conjunct cannot be expressed in the model; it is checked on the implementation by the harness (tb_ok). Entries with a retry loop: Props/C04; a Policy without a retry component (single attempt): Props/C04NR; which rule the error's stop_reason names: Props/C04Stop (corollary of C14's terminal_tags, needs a metric or log hook in the configuration to be visible in a log)",
    "C12": "call()/execute() agreement is proved for Retry (call_execute_agree), for a Policy with a retry component "
           "(pcall_pexecute_agree) and for the retry-less Policy (pcall_pexecute_agree_nr), each under explicit "
           "hypotheses on the run's own log: no attempt hooks (retry-less: no end hook), the abort predicate does not "
           "raise, callbacks other than the operation do not raise AbortRetryError themselves, and — at policy level — "
           "exactly what excludes the known findings F11/F12/F13, a breaker-event hook raising a BaseException-only "
           "kind, and a classifier that is not a function of the exception. Policy-without-breaker = Retry "
           "(pcall_eq_call, pexecute_eq_execute: exact equations, one more classify exchange when an Exception is "
           "raised). Sync/async: async_irrelevant, async_irrelevant_policy (isAsync matters only when CancelledError "
           "is raised). RetryPolicy/@retry/context forms are one model function with Policy; that the code's wrappers "
           "forward faithfully is carried by the correspondence and the entry-point twins on the implementation",
    "C02": "wall-clock independence is by construction of the model (it has no wall-clock input); carried by the "
           "correspondence, whose non-monotonic clock shim jumps by hours at every read",
}
def _regen_forwarding() -> None:
    """C12's translator for the glue: regenerate Redress/Generated/Forwarding.lean from the CURRENT working tree
    before the proof obligations are built (a refusal writes a file that does not build)."""
    from . import extract_forwarding
    from .common import REPO, LEAN_DIR
    out = LEAN_DIR / "Redress" / "Generated" / "Forwarding.lean"
    try:
        extract_forwarding.write_generated(REPO, out)
    except (extract_forwarding.ExtractError, SyntaxError, OSError) as e:
        msg = str(e).replace('"', "'")
        out.write_text("import Redress.Props.C12Fwd\n/- extract_forwarding.py could not translate the working tree: "
                       + msg + " -/\nnamespace Redress.Generated.Forwarding\n"
                       "theorem extracted_ok : (0 : Nat) = 1 := by decide\nend Redress.Generated.Forwarding\n")


for pid, (mods, audits) in _LOOP.items():
    if _have(*audits):
        fams = (["loop", "interleave"] if pid in ("C08", "C09", "C12") else ["loop", "sigs"] if pid == "C05"
                else ["loop"])
        _reg(pid, mods, audits, fams, LOOP_NOTE, partial=_LOOP_PARTIAL.get(pid, ""),
             pre_build=_regen_forwarding if pid == "C12" else None)

# ---------------------------------------------------------------- components
if _have("Redress/Audit/C06.lean"):
    _reg("C06", ["Redress.Props.C06"], ["Redress/Audit/C06.lean"], ["breaker_ops"],
         "Model = Redress/Model/Breaker.lean (circuit.py); history-based spec Redress/Spec/Breaker.lean; tie = "
         "family breaker_ops: real CircuitBreaker(clock=virtual) vs model after EVERY op (outputs + internal state) "
         "+ Lean spec predicate on the implementation's own outputs",
         assumptions=["non-decreasing clock (explicit hypothesis `Mono`)", "0 < window"])

_c07_mods, _c07_aud = ["Redress.Props.C07Breaker"], ["Redress/Audit/C07Breaker.lean"]
if _have("Redress/Audit/C07Policy.lean"):
    _c07_mods.append("Redress.Props.C07Policy")
    _c07_aud.append("Redress/Audit/C07Policy.lean")
if _have("Redress/Audit/C07Breaker.lean"):
    _reg("C07", _c07_mods, _c07_aud, ["breaker_ops", "interleave", "loop"],
         "breaker level: Redress/Model/Breaker.lean vs real CircuitBreaker (family breaker_ops); policy level: "
         + LOOP_NOTE,
         partial="single_outstanding_probe is proved under `noStale` (no call admitted before the last opening is "
                 "still outstanding); without it the statement is false of the code (known finding F7, "
                 "stale completion), witnessed by single_outstanding_probe_false_F7")

_c10_mods, _c10_aud = ["Redress.Props.C10"], ["Redress/Audit/C10.lean"]
if _have("Redress/Audit/C10Policy.lean"):
    _c10_mods.append("Redress.Props.C10Policy")
    _c10_aud.append("Redress/Audit/C10Policy.lean")
if _have("Redress/Audit/C10.lean"):
    _reg("C10", _c10_mods, _c10_aud, ["budget_ops", "loop"],
         "Model = Redress/Model/Budget.lean (budget.py); spec Redress/Spec/Budget.lean; tie = family budget_ops "
         "(real Budget with virtual clock vs model after every op + Lean spec monitor on the implementation's log); "
         "policy level: monitor C10.token_per_retry on loop-family logs (" + LOOP_NOTE + ")",
         assumptions=["non-decreasing clock (explicit hypothesis `Monotone`); without it both model and code can "
                      "over-grant (examples in Props/C10.lean) — reading the clock outside the lock is C17's matter"])

if _have("Redress/Audit/C18.lean"):
    _reg("C18", ["Redress.Props.C18"], ["Redress/Audit/C18.lean"], ["strategies"],
         "Model = Redress/Model/Strategies.lean over exact rationals (draw u is an explicit argument); tie = family "
         "strategies: real functions with a scripted random draw vs model (rel. tol. 2^-40) + Lean envelope "
         "predicates on the implementation's values",
         partial="floats are modelled as exact rationals: 'never raises / finite for very large attempts' is an IEEE "
                 "matter the model cannot exhibit; it is carried by the correspondence (attempts up to 10^6)")

if _have("Redress/Audit/C19.lean"):
    _reg("C19", ["Redress.Props.C19"], ["Redress/Audit/C19.lean"], ["classifiers"],
         "Model = Redress/Model/Classify.lean (exceptions as records of Python values); tie = family classifiers: "
         "real classifiers on real exception objects vs model, branch coverage measured, documented-table spec "
         "evaluated in Lean on the implementation's answers",
         partial="totality of the PYTHON ('never raises') is a correspondence claim (incl. a hostile-values stream); "
                 "totality of the model is free in Lean")

if _have("Redress/Audit/C20.lean"):
    _reg("C20", ["Redress.Props.C20", "Redress.Props.C18"], ["Redress/Audit/C20.lean"], ["retry_after", "strategies"],
         "Model = Redress/Model/RetryAfter.lean with an explicit exception-outcome type; "
         "email.utils.parsedate_to_datetime and datetime.now are oracle parameters; hint_honoured is proved in "
         "Props/C18.lean (retry_after_or); tie = families retry_after + strategies",
         assumptions=["OracleWithinExcept: the stdlib date parser raises only Type/Value/Index/OverflowError "
                      "(the harness counts what it actually raised)",
                      "Catchable: header containers' callbacks raise only Exceptions"])
    if "C20" in REGISTRY:
        REGISTRY["C20"]["theorems"] += [t for t in _T.get("Redress/Audit/C18.lean", []) if "hint" in t]
        REGISTRY["C20"]["audit"] = ["Redress/Audit/C20.lean", "Redress/Audit/C18.lean"]


def _regen_lockshape() -> None:
    """C17's translator: regenerate Redress/Generated/LockShape.lean from the CURRENT working tree
    before the proof obligations are built (a refusal writes a file that does not build)."""
    from . import extract_locks
    from .common import REPO, LEAN_DIR
    try:
        extract_locks.write_generated(REPO, LEAN_DIR / "Redress" / "Generated" / "LockShape.lean")
    except (extract_locks.ExtractError, SyntaxError):
        pass            # reported by the `threads` family (lockshape-extractor-refused)


if _have("Redress/Audit/C17.lean"):
    _aud = ["Redress/Audit/C17.lean"]
    if _have("Redress/Generated/LockShapeAudit.lean"):
        _aud.append("Redress/Generated/LockShapeAudit.lean")
    _reg("C17", ["Redress.Props.C17", "Redress.Generated.LockShape"], _aud, ["threads"],
         "generic serializability/deadlock-freedom theorem over a one-lock thread calculus (any number of threads, "
         "any program length); tie = TRANSLATOR harness/extract_locks.py regenerating Redress/Generated/LockShape.lean "
         "from circuit.py/budget.py on every run (lock discipline by `decide`) + line-level schedule explorer + "
         "lockset instrumentation",
         partial="CPython's scheduler below line granularity is not modelled; the extractor's classification of "
                 "statements is trusted and validated dynamically",
         pre_build=_regen_lockshape)
