"""Write /verif/MANIFEST.json from the registry (run after changing harness/props.py)."""
import json
import sys
from pathlib import Path

ROOT = Path(__file__).resolve().parent.parent
sys.path.insert(0, str(ROOT))
from harness.registry import REGISTRY  # noqa: E402
import harness.props  # noqa: E402,F401

ALL = [f"C{i:02d}" for i in range(1, 21)]
TECH = {
    "loop": "Lean 4 proof (Std.Do Hoare specs + invariant, induction on the attempt loop) of the Lean monitor over "
            "the monadic model; model tied to the code by behavioural correspondence",
    "component": "Lean 4 proof (refinement of the state machine to a history-based spec, induction over "
                 "histories); model tied to the code by operation-level correspondence",
}
IN_PROGRESS = ("machinery for this property is not finished/reviewed yet at this commit (Lean monitor and "
               "correspondence exist, the theorem is being proved); not claimed until the proof is checked")

checks = []
for pid in ALL:
    if pid not in REGISTRY:
        continue
    spec = REGISTRY[pid]
    fam = ",".join(spec["families"])
    checks.append({
        "property_id": pid,
        "quick_cmd": f"./check {pid} --tier quick",
        "thorough_cmd": f"./check {pid} --tier thorough",
        "evidence_file": f"evidence/{pid}.json",
        "replay_cmd_template": f"./check {pid} --replay {{path}}",
        "engine": "lean4+correspondence",
        "level_claimed": {
            "category": "proof",
            "text": (f"{len(spec['theorems'])} kernel-checked Lean 4 theorems (no sorry, axioms within propext/"
                     f"Classical.choice/Quot.sound, audited on every run) state the property for ALL inputs/"
                     f"histories/answer streams of a formal model; the model is tied to /repo's current tree on "
                     f"every run by the correspondence families [{fam}] and the Lean-side monitors/spec predicates "
                     f"are evaluated on the implementation's own traces to produce a concrete failing input."
                     + (" PARTIAL: " + spec["partial"] if spec.get("partial") else "")),
            "design_ref": spec["design_ref"],
        },
        "level_note": ("Trusted base: Lean 4.33 kernel (+ leanchecker in the thorough tier); the hand-written model "
                       "and its correspondence harness; " + spec["note"]
                       + ("; assumptions: " + "; ".join(spec["assumptions"]) if spec.get("assumptions") else "")),
        "technique": TECH["loop" if "loop" in spec["families"] and len(spec["families"]) == 1 else "component"],
    })

_mods = []
for spec in REGISTRY.values():
    for m in spec["modules"] + [a[:-5].replace("/", ".") for a in spec["audit"]]:
        if m not in _mods:
            _mods.append(m)

manifest = {
    "version": 1,
    "setup_cmd": "cd lean && lake build Redress driver " + " ".join(_mods),
    "hooks": {
        "guard": "REDRESS_VERIF",
        "enable": "none needed: the harness imports /repo/src as is and replaces module attributes "
                  "(e.g. redress.policy.state.time) inside its own process; no source hooks exist",
        "baseline_off_cmd": "cd /repo && /venv/bin/python -m pytest -ra -q -p no:cacheprovider --timeout=900 "
                            "--continue-on-collection-errors",
        "source_commits": [],
        "add_only": True,
    },
    "engines": [
        {"name": "lean4+correspondence", "path": "lean/ , harness/ , check",
         "serves_properties": [c["property_id"] for c in checks],
         "kind_free_text": "Lean 4 model + theorems (lake project lean/), compiled driver replaying the "
                           "implementation's oracle answers through the model, Python harness driving the real "
                           "library with an on-demand oracle"},
    ],
    "checks": checks,
    "not_applicable": [{"property_id": p, "reason": IN_PROGRESS} for p in ALL if p not in REGISTRY],
    "notes": "Repairs of genuine defects are `fix:` commits in /repo, listed in known_findings.txt; DESIGN.md §6.",
}
(ROOT / "MANIFEST.json").write_text(json.dumps(manifest, indent=1))
print("claimed:", [c["property_id"] for c in checks])
print("not_applicable:", [x["property_id"] for x in manifest["not_applicable"]])
