import random, itertools, asyncio
from redress import *
from redress.policy import state as st, retry_helpers as rh
from redress.sleep import SleepDecision
import redress.policy.runner.timeline as tl
TERMINALS={"success","permanent_fail","deadline_exceeded","max_attempts_exceeded","max_unknown_attempts_exceeded","no_strategy_configured","budget_exhausted","scheduled","aborted"}
class VC:
    t=0.0
    def monotonic(self): return self.t
    def sleep(self,s): self.t+=s
vc=VC()
class Shim:
    def __init__(s,**k): s.__dict__.update(k)
st.time=Shim(monotonic=vc.monotonic); tl.time=Shim(monotonic=vc.monotonic)
import redress.budget as bud; bud.time=Shim(monotonic=vc.monotonic)
KL=list(ErrorClass)
def run_case(seed, mode):
    rng=random.Random(seed)
    vc.t=0.0
    maxa=rng.randint(1,4)
    cfg=dict(max_attempts=maxa, deadline_s=rng.choice([0.0,1.0,2.0,5.0]), max_unknown_attempts=rng.choice([None,0,1,2]),
             per_class_max_attempts={k:rng.randint(0,2) for k in rng.sample(KL, rng.randint(0,3))})
    strat_table={k:None for k in rng.sample(KL, rng.randint(0,3))}
    has_default=rng.random()<0.8 or not strat_table
    trace=[]
    def mkstrat(name):
        def s(ctx):
            out=rng.choice([0.0,0.5,1.0,3.0,float('nan'),float('inf'),-1.0])
            trace.append(("strategy",name,ctx.attempt,ctx.klass.name,ctx.prev_sleep_s,ctx.remaining_s,ctx.cause,repr(out)))
            return out
        return s
    strategies={k:mkstrat(k.name) for k in strat_table}
    budget=Budget(max_retries=rng.randint(0,3), window_s=10.0) if rng.random()<0.4 else None
    handler=None
    if rng.random()<0.4:
        def handler(ctx,d):
            r=rng.choice([SleepDecision.SLEEP,SleepDecision.SLEEP,SleepDecision.DEFER,SleepDecision.ABORT]); trace.append(("handler",d,r.value)); return r
    abort_at=rng.choice([None,None,None]+list(range(0,8)))
    polls=[0]
    def abort_if():
        polls[0]+=1; r=(abort_at is not None and polls[0]>abort_at); trace.append(("poll",r)); return r
    exc_by_id={}
    def classifier(e):
        return e.klass
    def rclass(v):
        return v[1] if isinstance(v,tuple) else None
    n=[0]
    def op():
        n[0]+=1
        kind=rng.choice(["ok","exc","exc","res","res","abort"]) if rng.random()<0.9 else "ok"
        vc.t+=rng.choice([0.0,0.5,1.0])
        trace.append(("op",n[0],kind))
        if kind=="ok": return ("ok",None,n[0])
        k=rng.choice(KL)
        if kind=="exc":
            e=ValueError(n[0]); e.klass=k; raise e
        if kind=="abort": raise AbortRetryError()
        return ("bad",k,n[0])
    def sleeper(s):
        trace.append(("sleep",s)); vc.t+=s+rng.choice([0.0,0.0,0.5])
    metrics=[]; logs=[]
    r=Retry(classifier=classifier, result_classifier=rclass, strategy=mkstrat("default") if has_default else None, strategies=strategies or None, budget=budget, sleep=handler, sleeper=sleeper, **cfg)
    kw=dict(on_metric=lambda ev,a,s,t: metrics.append((ev,a,s,dict(t))), on_log=lambda ev,f: logs.append((ev,dict(f))), abort_if=abort_if if abort_at is not None else None, operation="op")
    try:
        if mode=="call":
            v=r.call(op, **kw); res=("ret",v)
        else:
            o=r.execute(op, capture_timeline=True, **kw); res=("out",o.ok,o.value,o.stop_reason and o.stop_reason.value,o.attempts,o.last_class and o.last_class.name,repr(o.last_exception),o.last_result,o.cause,o.next_sleep_s,[ (e.event,e.attempt,e.sleep_s) for e in o.timeline.events])
    except RetryExhaustedError as e:
        res=("exhausted",e.stop_reason.value,e.attempts,e.last_class and e.last_class.name,repr(e.last_exception),e.last_result,e.next_sleep_s)
    except BaseException as e:
        res=("raised",type(e).__name__,repr(e))
    return cfg,trace,metrics,logs,res,n[0]
bad=0
for seed in range(30000):
    c1=run_case(seed,"call"); c2=run_case(seed,"execute")
    cfg,trace,metrics,logs,res,n=c1
    for (cfg,trace,metrics,logs,res,n),mode in ((c1,"call"),(c2,"execute")):
        terms=[m for m in metrics if m[0] in TERMINALS]
        if len(terms)!=1 or metrics[-1][0] not in TERMINALS:
            bad+=1
            if bad<6: print("TERMINAL-COUNT",seed,mode,cfg,metrics,res)
        if [ (m[0],m[1],m[2]) for m in metrics]!=[(l[0],l[1]["attempt"],l[1]["sleep_s"]) for l in logs]:
            print("SINK-MISMATCH",seed,mode)
        if mode=="execute" and [ (m[0],m[1],m[2]) for m in metrics]!=res[-1]:
            print("TIMELINE-MISMATCH",seed,mode)
    if c1[1]!=c2[1] or [m for m in c1[2]]!=[m for m in c2[2]]:
        bad+=1
        if bad<12: print("CALL/EXEC DIFF",seed,c1[0]); print("  ",c1[1],c1[4]); print("  ",c2[1],c2[4])
print("done bad=",bad)

# ---- C02/C05-ish direct monitors
import math
viol=0
for seed in range(20000):
    rng=random.Random(10**6+seed)
    vc.t=rng.choice([0.0, 1234.5])
    start=vc.t
    deadline=rng.choice([0.5,1.0,2.0,3.0])
    ev=[]
    def strat(ctx):
        out=rng.choice([0.0,0.25,0.5,1.0,3.0,float('nan'),float('inf'),float('-inf'),-1.0])
        ev.append(("strategy",ctx.attempt,ctx.prev_sleep_s,ctx.remaining_s,out,vc.t-start)); return out
    def op():
        ev.append(("op",vc.t-start)); vc.t+=rng.choice([0.0,0.25,0.5,1.0,1.5])
        e=ValueError(); raise e
    def sleeper(s):
        ev.append(("sleep",s,vc.t-start)); vc.t+=s+rng.choice([0.0,0.0,0.25])
    r=Retry(classifier=lambda e: ErrorClass.TRANSIENT, strategy=strat, sleeper=sleeper, max_attempts=rng.randint(1,6), deadline_s=deadline)
    ms=[]
    try: r.call(op, on_metric=lambda *a: ms.append(a))
    except ValueError: pass
    prev=None
    for e in ev:
        if e[0]=="op" and e[1]>deadline+1e-9: viol+=1; print("ATTEMPT AFTER DEADLINE",seed,ev)
        if e[0]=="strategy":
            raw=e[4]; rem=e[3]
            exp=0.0 if not math.isfinite(raw) else min(max(0.0,raw),rem)
            if abs(rem-(deadline-e[5]))>1e-9 or e[2]!=prev: viol+=1; print("CTX",seed,e,prev)
            last_exp=exp
        if e[0]=="sleep":
            if e[1]!=last_exp or e[1]>deadline-e[2]+1e-9: viol+=1; print("SLEEP",seed,e,last_exp)
            prev=e[1]
print("c02/c05 viol",viol)
