import asyncio
from redress import *
from redress.circuit import CircuitState
class Clock:
    t=0.0
    def __call__(self): return self.t
def mk():
    c=Clock(); br=CircuitBreaker(failure_threshold=1, window_s=10, recovery_timeout_s=5, clock=c)
    br.allow(); br.record_failure(ErrorClass.TRANSIENT); c.t=5.0
    return c,br
def leaked(br): return br.state is CircuitState.HALF_OPEN and br._probe_in_flight
def R(cls=Retry, **kw):
    kw.setdefault("classifier", lambda e: ErrorClass.TRANSIENT)
    return cls(strategy=lambda ctx:0.0, sleeper=lambda s:None, max_attempts=2, **kw)
def raiser(exc):
    def f(): raise exc
    return f
leaks=[]
for label, exc in [("CircuitOpenError", CircuitOpenError("open")), ("KeyboardInterrupt", KeyboardInterrupt()), ("SystemExit", SystemExit()), ("GeneratorExit", GeneratorExit()), ("CancelledError", asyncio.CancelledError()), ("ValueError", ValueError()), ("AbortRetryError", AbortRetryError()), ("RetryExhaustedError", RetryExhaustedError(StopReason.SCHEDULED,1,None,None,None))]:
    for withretry in (True, False):
        for mode in ("call","execute"):
            c,br=mk(); p=Policy(retry=R() if withretry else None, circuit_breaker=br)
            try: getattr(p,mode)(raiser(exc))
            except BaseException: pass
            if leaked(br): leaks.append(("sync",mode,withretry,label))
def bad_cls(e): raise RuntimeError("classifier boom")
def boom(ctx): raise RuntimeError("hook")
for mode in ("call","execute"):
    c,br=mk(); p=Policy(retry=R(classifier=bad_cls), circuit_breaker=br)
    try: getattr(p,mode)(raiser(ValueError()))
    except BaseException: pass
    if leaked(br): leaks.append(("sync",mode,"raising classifier"))
    for withretry in (True, False):
        for hook in ("on_attempt_start","on_attempt_end"):
            for opx in (None, ValueError(), AbortRetryError()):
                c,br=mk(); p=Policy(retry=R() if withretry else None, circuit_breaker=br)
                try: getattr(p,mode)((lambda: 1) if opx is None else raiser(opx), **{hook: boom})
                except BaseException: pass
                if leaked(br): leaks.append(("sync",mode,withretry,hook,type(opx).__name__))
class Suspend:
    def __await__(self):
        r = yield self
        return r
for withretry in (True, False):
    for mode in ("call","execute"):
        for how in ("throw_cancel","close"):
            c,br=mk()
            async def sl(s): await Suspend()
            p=AsyncPolicy(retry=AsyncRetry(classifier=lambda e: ErrorClass.TRANSIENT, strategy=lambda ctx:0.0, sleeper=sl, max_attempts=2) if withretry else None, circuit_breaker=br)
            async def op(): await Suspend(); raise ValueError()
            coro=getattr(p,mode)(op); coro.send(None)
            try:
                if how=="close": coro.close()
                else: coro.throw(asyncio.CancelledError())
            except BaseException: pass
            if leaked(br): leaks.append(("async",mode,withretry,how))
print(len(leaks),"leaks"); [print("  ",l) for l in leaks]
