"""Probe: deterministic line-level scheduler over real threads for circuit.py/budget.py."""
import sys, threading, itertools
from redress import CircuitBreaker, ErrorClass
import redress.circuit as circ
TARGET = {circ.__file__}

class Sched:
    def __init__(self, schedule):
        self.schedule = list(schedule)   # preferred thread order choices (list of tids), fallback round robin
        self.pos = 0
        self.cv = threading.Condition()
        self.current = None
        self.alive = set()
        self.blocked = {}                # tid -> lock it waits for
        self.trace = []
    def pick(self):
        runnable = sorted(t for t in self.alive if t not in self.blocked or self.blocked[t].owner is None)
        if not runnable:
            self.current = None; return
        while self.pos < len(self.schedule):
            c = self.schedule[self.pos]; self.pos += 1
            if c in runnable:
                self.current = c; return
        self.current = runnable[0]
    def yield_point(self, tid, what):
        with self.cv:
            self.trace.append((tid, what))
            self.pick()
            self.cv.notify_all()
            while self.current != tid:
                if self.current is None and not any(t for t in self.alive if t not in self.blocked):
                    raise RuntimeError("deadlock")
                self.cv.wait(timeout=5)
    def start(self, tid):
        with self.cv:
            self.alive.add(tid)
    def finish(self, tid):
        with self.cv:
            self.alive.discard(tid); self.pick(); self.cv.notify_all()

class CoopLock:
    def __init__(self, sched): self.sched = sched; self.owner = None
    def __enter__(self):
        tid = threading.current_thread().name
        while self.owner is not None:
            self.sched.blocked[tid] = self
            self.sched.yield_point(tid, "blocked")
        self.sched.blocked.pop(tid, None)
        self.owner = tid
        return self
    def __exit__(self, *a):
        self.owner = None
        return False

def run(program, schedule):
    clock = [10.0]
    br = CircuitBreaker(failure_threshold=1, window_s=10, recovery_timeout_s=5, clock=lambda: clock[0])
    br.allow(); br.record_failure(ErrorClass.TRANSIENT)   # OPEN at t=10
    clock[0] = 15.0                                        # timeout boundary reached
    sched = Sched(schedule)
    br._lock = CoopLock(sched)
    results = {}
    def tracer(frame, event, arg):
        if frame.f_code.co_filename not in TARGET: return None
        def local(frame, event, arg):
            if event == "line":
                sched.yield_point(threading.current_thread().name, frame.f_lineno)
            return local
        return local
    def worker(tid, ops):
        sys.settrace(tracer)
        try:
            sched.yield_point(tid, "start")
            out = []
            for op in ops:
                out.append(op(br))
            results[tid] = out
        finally:
            sys.settrace(None)
            sched.finish(tid)
    ths = []
    for tid, ops in program.items():
        sched.start(tid)
    for tid, ops in program.items():
        t = threading.Thread(target=worker, args=(tid, ops), name=tid); ths.append(t)
    with sched.cv:
        sched.pick()
    for t in ths: t.start()
    for t in ths: t.join(10)
    return results, br.state.value, br._probe_in_flight, len(sched.trace)

prog = {"A": [lambda b: b.allow().allowed], "B": [lambda b: b.allow().allowed]}
outcomes = set()
n = 0
for schedule in itertools.product("AB", repeat=10):
    res, state, probe, steps = run(prog, schedule)
    outcomes.add((tuple(res["A"]), tuple(res["B"]), state, probe)); n += 1
print(n, "schedules; outcomes:", outcomes)
