import Std.Do
import Std.Tactic.Do
open Std.Do

namespace Pc

inductive EClass | permanent | transient | unknown | rateLimit
deriving DecidableEq, Repr

inductive Exn | ordinary (id : Nat) | abort | cancelled | stuck
deriving DecidableEq, Repr

inductive Ans
  | unit (dur : Nat) | opOk (v : Nat) (dur : Nat) | klass (k : EClass) (dur : Nat)
  | delay (d : Int) (dur : Nat) | bool (b : Bool) | raise (e : Exn) (dur : Nat)
deriving Repr

inductive Req
  | op (attempt : Nat) | classify (id : Nat) | strategy (attempt : Nat) (k : EClass)
  | sleeper (d : Int) | poll | metric (ev : String) (attempt : Nat)
deriving Repr, DecidableEq

/-- Ghost monitor for C01's per-class clause, updated by `ask`. -/
structure Mon where
  pending : Option EClass := none        -- class of the last failure, not yet followed by an op
  retries : EClass → Nat := fun _ => 0   -- op requests that followed a class-K failure

def Mon.step (m : Mon) : Req → Ans → Mon
  | .classify _, .klass k _ => { m with pending := some k }
  | .op _, _ => match m.pending with
      | some k => { pending := none, retries := fun k' => if k' = k then m.retries k' + 1 else m.retries k' }
      | none => m
  | _, _ => m

structure World where
  answers : List Ans
  now : Nat := 0
  mon : Mon := {}

abbrev M := EStateM Exn World

def durOf : Ans → Nat
  | .unit d | .opOk _ d | .klass _ d | .delay _ d | .raise _ d => d
  | .bool _ => 0

def ask (r : Req) : M Ans := do
  let w ← get
  match w.answers with
  | [] => throw .stuck
  | a :: rest =>
    set { w with answers := rest, now := w.now + durOf a, mon := w.mon.step r a }
    match a with
    | .raise e _ => throw e
    | _ => pure a

structure Cfg where
  maxAttempts : Nat
  maxUnknown : Option Nat
  limit : EClass → Option Nat

structure LState where
  perClass : EClass → Nat := fun _ => 0
  unknown : Nat := 0

inductive Out | value (v : Nat) | failed (id : Nat)
deriving Repr

def isOrdinary : Exn → Bool
  | .ordinary _ => true
  | _ => false

def emit (ev : String) (attempt : Nat) : M Unit :=
  tryCatch (do let _ ← ask (.metric ev attempt); pure ())
    (fun e => if isOrdinary e then pure () else throw e)

def checkAbort : M Unit := do
  let a ← ask .poll
  match a with
  | .bool true => throw .abort
  | _ => pure ()

def classify (id : Nat) : M EClass := do
  let a ← ask (.classify id)
  match a with
  | .klass k _ => pure k
  | _ => throw .stuck

def strategy (i : Nat) (k : EClass) : M Int := do
  let a ← ask (.strategy i k)
  match a with
  | .delay d _ => pure d
  | _ => pure 0

def bump (st : LState) (k : EClass) : LState :=
  { st with perClass := fun k' => if k' = k then st.perClass k' + 1 else st.perClass k' }

def overLimit (cfg : Cfg) (st : LState) (k : EClass) : Bool :=
  match cfg.limit k with
  | some l => st.perClass k > l
  | none => false

/-- `_handle_failure` + sleep, reduced: returns `none` to continue. -/
def handleFailure (cfg : Cfg) (i : Nat) (st : LState) (id : Nat) : M (Option Out × LState) := do
  checkAbort
  let k ← classify id
  let st := bump st k
  if overLimit cfg st k then
    emit "max_attempts_per_class" i
    pure (some (.failed id), st)
  else if k = .permanent then
    emit "permanent_fail" i
    pure (some (.failed id), st)
  else if i ≥ cfg.maxAttempts then
    emit "max_attempts" i
    pure (some (.failed id), st)
  else
    let d ← strategy i k
    emit "retry" i
    checkAbort
    let _ ← ask (.sleeper (max 0 d))
    pure (none, st)

def invoke (i : Nat) : M Nat := do
  let a ← ask (.op i)
  match a with
  | .opOk v _ => pure v
  | _ => throw .stuck

def attempt (cfg : Cfg) (i : Nat) (st : LState) : M (Option Out × LState) := do
  checkAbort
  tryCatch
    (do let v ← invoke i
        emit "success" i
        pure (some (.value v), st))
    (fun e => match e with
      | .ordinary id => handleFailure cfg i st id
      | e => throw e)

def loop (cfg : Cfg) : (fuel : Nat) → (i : Nat) → LState → M Out
  | 0, _, _ => throw .stuck
  | fuel + 1, i, st => do
    let r ← attempt cfg i st
    match r with
    | (some out, _) => pure out
    | (none, st') => loop cfg fuel (i + 1) st'

/-! ### Invariant -/

/-- relation between ghost monitor and loop counters -/
def Rel (cfg : Cfg) (st : LState) (m : Mon) : Prop :=
  (∀ k, m.retries k + (if m.pending = some k then 1 else 0) ≤ st.perClass k) ∧
  (∀ k l, cfg.limit k = some l → st.perClass k ≤ l)

/-- what we ultimately want of the monitor alone -/
def Good (cfg : Cfg) (m : Mon) : Prop := ∀ k l, cfg.limit k = some l → m.retries k ≤ l

theorem Rel.good {cfg st m} (h : Rel cfg st m) : Good cfg m := by
  intro k l hl
  have h1 := h.1 k
  have h2 := h.2 k l hl
  split at h1 <;> omega


@[simp] theorem restore_dummy (s : World) (d : PUnit) : EStateM.Backtrackable.restore s d = s := rfl

/-- the monitor is exactly `m` afterwards, whether the procedure returns or raises -/
abbrev same (m : Mon) : PostCond α (.except Exn (.arg World .pure)) :=
  post⟨fun _ w => ⌜w.mon = m⌝, fun _ w => ⌜w.mon = m⌝⟩

def inert : Req → Bool
  | .op _ | .classify _ => false
  | _ => true

@[simp] theorem step_inert (m : Mon) (r : Req) (a : Ans) (h : inert r = true) : m.step r a = m := by
  cases r <;> simp_all [inert, Mon.step]

def opStep (m : Mon) : Mon := m.step (.op 0) (.bool true)

@[simp] theorem step_op (m : Mon) (i : Nat) (a : Ans) : m.step (.op i) a = opStep m := by
  simp [opStep, Mon.step]

@[spec] theorem ask_inert (r : Req) (m : Mon) (h : inert r = true) :
    ⦃fun w => ⌜w.mon = m⌝⦄ ask r ⦃same m⦄ := by
  mvcgen [ask]
  all_goals simp_all

macro "close_m" : tactic => `(tactic| all_goals (first | (simp_all [inert]; done) | (intros; simp_all [inert])))

@[spec] theorem emit_spec (ev : String) (i : Nat) (m : Mon) :
    ⦃fun w => ⌜w.mon = m⌝⦄ emit ev i ⦃same m⦄ := by
  mvcgen [emit]
  close_m

@[spec] theorem checkAbort_spec (m : Mon) : ⦃fun w => ⌜w.mon = m⌝⦄ checkAbort ⦃same m⦄ := by
  mvcgen [checkAbort]
  close_m

@[spec] theorem strategy_spec (i : Nat) (k : EClass) (m : Mon) :
    ⦃fun w => ⌜w.mon = m⌝⦄ strategy i k ⦃same m⦄ := by
  mvcgen [strategy]
  close_m

@[spec] theorem classify_spec (id : Nat) (m : Mon) :
    ⦃fun w => ⌜w.mon = m⌝⦄ classify id
    ⦃post⟨fun k w => ⌜w.mon = { m with pending := some k }⌝, fun _ w => ⌜w.mon = m⌝⟩⦄ := by
  mvcgen [classify, ask]
  all_goals simp_all [Mon.step]

@[spec] theorem invoke_spec (i : Nat) (m : Mon) :
    ⦃fun w => ⌜w.mon = m⌝⦄ invoke i
    ⦃post⟨fun _ w => ⌜w.mon = opStep m⌝, fun e w => ⌜(e = .stuck ∧ w.mon = m) ∨ w.mon = opStep m⌝⟩⦄ := by
  mvcgen [invoke, ask]
  all_goals simp_all

/-! Facts about the relation, proved once, outside any program. -/

theorem Rel.opStep {cfg st m} (h : Rel cfg st m) : Rel cfg st (opStep m) ∧ (opStep m).pending = none := by
  unfold Pc.opStep Mon.step
  cases hp : m.pending with
  | none => simp_all [Rel]
  | some k =>
    refine ⟨⟨fun k' => ?_, h.2⟩, rfl⟩
    have := h.1 k'
    by_cases hk : k' = k
    · simp_all
    · have hk' : ¬ k = k' := fun e => hk e.symm
      simp_all

theorem Rel.bump {cfg st m k} (h : Rel cfg st m) (hp : m.pending = none)
    (hlim : overLimit cfg (bump st k) k = false) :
    Rel cfg (bump st k) { m with pending := some k } := by
  refine ⟨fun k' => ?_, fun k' l hl => ?_⟩
  · have := h.1 k'
    by_cases hk : k' = k
    · simp_all [Pc.bump]
    · have hk' : ¬ k = k' := fun e => hk e.symm
      simp_all [Pc.bump]
  · have := h.2 k' l hl
    by_cases hk : k' = k
    · subst hk
      simp [overLimit, hl, Pc.bump] at hlim
      simp [Pc.bump]; omega
    · simp [Pc.bump, hk]; exact this

theorem Good.of_pending {cfg st m k} (h : Rel cfg st m) (hp : m.pending = none) :
    Good cfg { m with pending := some k } := by
  intro k' l hl
  have := h.good k' l hl
  simpa using this

/-- the attempt-level contract -/
abbrev apost (cfg : Cfg) : PostCond (Option Out × LState) (.except Exn (.arg World .pure)) :=
  post⟨fun r w => ⌜match r with
                    | (none, st') => Rel cfg st' w.mon
                    | (some _, _) => Good cfg w.mon⌝,
       fun _ w => ⌜Good cfg w.mon⌝⟩

macro "close_rel" hr:ident hp:ident : tactic => `(tactic| all_goals (
  (try simp_all) <;> (try intros) <;>
  first
    | exact Good.of_pending $hr $hp
    | exact Rel.bump $hr $hp (by assumption)
    | exact Rel.bump $hr $hp (by simp_all)
    | exact (Rel.bump $hr $hp (by assumption)).good
    | exact (Rel.bump $hr $hp (by simp_all)).good
    | exact ($hr).good
    | skip))

@[spec] theorem handleFailure_spec (cfg : Cfg) (i : Nat) (st : LState) (id : Nat) (m : Mon)
    (hr : Rel cfg st m) (hp : m.pending = none) :
    ⦃fun w => ⌜w.mon = m⌝⦄ handleFailure cfg i st id ⦃apost cfg⦄ := by
  mvcgen [handleFailure]
  close_rel hr hp

@[spec] theorem attempt_spec (cfg : Cfg) (i : Nat) (st : LState) (m : Mon) (hr : Rel cfg st m) :
    ⦃fun w => ⌜w.mon = m⌝⦄ attempt cfg i st ⦃apost cfg⦄ := by
  have ho := hr.opStep
  mvcgen [attempt]
  all_goals (try simp_all)
  all_goals (try intros)
  all_goals (first
    | exact ho.1.good
    | exact hr.good
    | (rename_i h; rcases h with h | h <;> simp_all [ho.1.good, hr.good, ho.2]; done)
    | skip)

theorem loop_spec (cfg : Cfg) : ∀ fuel i st m, Rel cfg st m →
    ⦃fun w => ⌜w.mon = m⌝⦄ loop cfg fuel i st
    ⦃post⟨fun _ w => ⌜Good cfg w.mon⌝, fun _ w => ⌜Good cfg w.mon⌝⟩⦄ := by
  intro fuel
  induction fuel with
  | zero => intro i st m hr; mvcgen [loop]; all_goals simp_all [hr.good]
  | succ f ih =>
    intro i st m hr
    mvcgen [loop]
    case vc1 => simp_all
    all_goals (try simp_all)
    all_goals (intro s hrel; exact ih (i + 1) _ s.mon hrel s rfl)

theorem adequacy {x : M α} {P : World → Prop} {Qok : α → World → Prop} {Qerr : Exn → World → Prop}
    (h : ⦃fun w => ⌜P w⌝⦄ x ⦃post⟨fun a w => ⌜Qok a w⌝, fun e w => ⌜Qerr e w⌝⟩⦄)
    (w : World) (hp : P w) :
    match x.run w with
    | .ok a w' => Qok a w'
    | .error e w' => Qerr e w' := by
  apply EStateM.of_wp_run_eq (prog := x) (s := w) rfl
    (fun r => match r with | .ok a w' => Qok a w' | .error e w' => Qerr e w')
  simpa using h w hp

def finalWorld : EStateM.Result Exn World α → World
  | .ok _ w => w
  | .error _ w => w

/-- C01 (per-class clause), prototype: for every configuration and every environment, the number of
    attempts that followed a class-`k` failure never exceeds `limit k`. -/
theorem per_class_retries_le_limit (cfg : Cfg) (answers : List Ans) (k : EClass) (l : Nat)
    (hl : cfg.limit k = some l) :
    (finalWorld ((loop cfg cfg.maxAttempts 1 {}).run { answers := answers })).mon.retries k ≤ l := by
  have hinit : Rel cfg {} {} := ⟨fun _ => by simp, fun _ _ _ => by simp⟩
  have := adequacy (loop_spec cfg cfg.maxAttempts 1 {} {} hinit) { answers := answers } rfl
  unfold finalWorld
  split <;> simp_all <;> exact this k l hl

#print axioms per_class_retries_le_limit
end Pc
