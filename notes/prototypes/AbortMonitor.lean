import Std.Do
import Std.Tactic.Do

open Std.Do

namespace MvProto

inductive EClass | permanent | transient | unknown
deriving DecidableEq, Repr

inductive Exn
  | ordinary (id : Nat) | abort | cancelled | kbd | stuck
deriving DecidableEq, Repr

inductive Ans
  | unit (dur : Nat)
  | opOk (v : Nat) (dur : Nat)
  | klass (k : EClass) (dur : Nat)
  | delay (d : Int) (dur : Nat)
  | bool (b : Bool)
  | raise (e : Exn) (dur : Nat)
deriving Repr

inductive Req
  | op (attempt : Nat) | classify (id : Nat) | strategy (attempt : Nat) (k : EClass)
  | sleeper (d : Int) | poll | metric (ev : String) (attempt : Nat)
deriving Repr, DecidableEq

structure World where
  answers : List Ans
  now : Nat := 0
  trace : List (Req × Ans) := []

abbrev M := EStateM Exn World

def durOf : Ans → Nat
  | .unit d | .opOk _ d | .klass _ d | .delay _ d | .raise _ d => d
  | .bool _ => 0

def isOpReq : Req → Bool
  | .op _ => true
  | _ => false

def opCount (w : World) : Nat := (w.trace.filter (fun p => isOpReq p.1)).length

def ask (r : Req) : M Ans := do
  let w ← get
  match w.answers with
  | [] => throw .stuck
  | a :: rest =>
    set { w with answers := rest, now := w.now + durOf a, trace := (r, a) :: w.trace }
    match a with
    | .raise e _ => throw e
    | _ => pure a

theorem ask_spec (r : Req) (n : Nat) :
    ⦃fun w => ⌜opCount w = n⌝⦄ ask r
    ⦃post⟨fun _ w => ⌜opCount w ≤ n + (if isOpReq r then 1 else 0)⌝,
          fun _ w => ⌜opCount w ≤ n + (if isOpReq r then 1 else 0)⌝⟩⦄ := by
  mvcgen [ask]
  all_goals simp_all [opCount, List.filter_cons]
  all_goals (split <;> simp_all <;> omega)


structure Cfg where
  maxAttempts : Nat
  maxUnknown : Nat

structure LState where
  unknown : Nat := 0

inductive Out | value (v : Nat) | failed (id : Nat)
deriving Repr

def isOrdinary : Exn → Bool
  | .ordinary _ => true
  | _ => false

/-- `try: hook(...) except Exception: pass` -/
def emit (ev : String) (attempt : Nat) : M Unit :=
  tryCatch (do let _ ← ask (.metric ev attempt); pure ())
    (fun e => if isOrdinary e then pure () else throw e)

def checkAbort : M Unit := do
  let a ← ask .poll
  match a with
  | .bool true => throw .abort
  | _ => pure ()

def classify (id : Nat) : M EClass := do
  let a ← ask (.classify id)
  match a with
  | .klass k _ => pure k
  | _ => pure .unknown

def strategy (i : Nat) (k : EClass) : M Int := do
  let a ← ask (.strategy i k)
  match a with
  | .delay d _ => pure d
  | _ => pure 0

def handleFailure (cfg : Cfg) (i : Nat) (st : LState) (id : Nat) : M (Option Out × LState) := do
  checkAbort
  let k ← classify id
  if k = .permanent then
    emit "permanent_fail" i
    pure (some (.failed id), st)
  else
    let st := if k = .unknown then { st with unknown := st.unknown + 1 } else st
    if k = .unknown ∧ st.unknown > cfg.maxUnknown then
      emit "max_unknown" i
      pure (some (.failed id), st)
    else if i ≥ cfg.maxAttempts then
      emit "max_attempts" i
      pure (some (.failed id), st)
    else
      let d ← strategy i k
      emit "retry" i
      checkAbort
      let _ ← ask (.sleeper (max 0 d))
      pure (none, st)

def invoke (i : Nat) : M Nat := do
  let a ← ask (.op i)
  match a with
  | .opOk v _ => pure v
  | _ => throw (.ordinary 0)

def attempt (cfg : Cfg) (i : Nat) (st : LState) : M (Option Out × LState) := do
  checkAbort
  tryCatch
    (do let v ← invoke i
        emit "success" i
        pure (some (.value v), st))
    (fun e => match e with
      | .ordinary id => handleFailure cfg i st id
      | e => throw e)

def loop (cfg : Cfg) : (fuel : Nat) → (i : Nat) → LState → M Out
  | 0, _, _ => throw (.ordinary 999)
  | fuel + 1, i, st => do
    let r ← attempt cfg i st
    match r with
    | (some out, _) => pure out
    | (none, st') => loop cfg fuel (i + 1) st'


/-! Monitor-style property: once a poll answered `true`, no `op` / `sleeper` request follows. -/

/-- newest-first trace; `abortedIn tr` = some poll in `tr` answered true. -/
def abortedIn : List (Req × Ans) → Bool
  | [] => false
  | (.poll, .bool true) :: _ => true
  | _ :: tr => abortedIn tr

def isAction : Req → Bool
  | .op _ | .sleeper _ => true
  | _ => false

/-- monitor: every action request happens in a not-yet-aborted prefix. -/
def okTrace : List (Req × Ans) → Bool
  | [] => true
  | (r, _) :: tr => (!(isAction r && abortedIn tr)) && okTrace tr

/-- normal return ⇒ still not aborted; raise ⇒ if aborted then the exception is `.abort`. -/
abbrev inv : PostCond α (.except Exn (.arg World .pure)) :=
  post⟨fun _ w => ⌜okTrace w.trace = true ∧ abortedIn w.trace = false⌝,
       fun e w => ⌜okTrace w.trace = true ∧ (abortedIn w.trace = true → e = .abort)⌝⟩

abbrev pre : Assertion (.except Exn (.arg World .pure)) :=
  fun w => ⌜okTrace w.trace = true ∧ abortedIn w.trace = false⌝

@[simp] theorem restore_dummy' (s : World) (d : PUnit) : EStateM.Backtrackable.restore s d = s := rfl

@[spec] theorem checkAbort_inv : ⦃pre⦄ checkAbort ⦃inv⦄ := by
  unfold checkAbort
  mvcgen [ask]
  all_goals simp_all [okTrace, abortedIn, isAction]

/-- asks other than `poll` never set the aborted flag -/
@[spec] theorem ask_inv (r : Req) (h : r ≠ .poll) : ⦃pre⦄ ask r ⦃inv⦄ := by
  mvcgen [ask]
  all_goals simp_all [okTrace, abortedIn]
  all_goals (cases r <;> simp_all [abortedIn, okTrace, isAction])


macro "close_inv" : tactic => `(tactic| all_goals (first | (simp_all [okTrace, abortedIn, isAction]; done) | (intros; simp_all [okTrace, abortedIn, isAction])))

@[spec] theorem emit_inv (ev : String) (i : Nat) : ⦃pre⦄ emit ev i ⦃inv⦄ := by
  mvcgen [emit]
  close_inv
  all_goals (rename_i e _ _ _; cases e <;> simp_all [isOrdinary])

@[spec] theorem classify_inv (id : Nat) : ⦃pre⦄ classify id ⦃inv⦄ := by
  mvcgen [classify]
  close_inv

@[spec] theorem strategy_inv (i : Nat) (k : EClass) : ⦃pre⦄ strategy i k ⦃inv⦄ := by
  mvcgen [strategy]
  close_inv

@[spec] theorem invoke_inv (i : Nat) : ⦃pre⦄ invoke i ⦃inv⦄ := by
  mvcgen [invoke]
  close_inv

@[spec] theorem handleFailure_inv (cfg : Cfg) (i : Nat) (st : LState) (id : Nat) :
    ⦃pre⦄ handleFailure cfg i st id ⦃inv⦄ := by
  mvcgen [handleFailure]
  close_inv

@[spec] theorem attempt_inv (cfg : Cfg) (i : Nat) (st : LState) : ⦃pre⦄ attempt cfg i st ⦃inv⦄ := by
  mvcgen [attempt]
  close_inv

theorem loop_inv (cfg : Cfg) : ∀ fuel i st, ⦃pre⦄ loop cfg fuel i st ⦃inv⦄ := by
  intro fuel
  induction fuel with
  | zero => intro i st; mvcgen [loop]; close_inv
  | succ f ih => intro i st; mvcgen [loop, ih]; close_inv

def run (cfg : Cfg) (answers : List Ans) : EStateM.Result Exn World Out :=
  (loop cfg cfg.maxAttempts 1 {}).run { answers := answers }

def finalWorld : EStateM.Result Exn World α → World
  | .ok _ w => w
  | .error _ w => w

/-- Adequacy glue (once): a triple over `M` is a plain statement about `run`. -/
theorem adequacy {x : M α} {P : World → Prop} {Qok : α → World → Prop} {Qerr : Exn → World → Prop}
    (h : ⦃fun w => ⌜P w⌝⦄ x ⦃post⟨fun a w => ⌜Qok a w⌝, fun e w => ⌜Qerr e w⌝⟩⦄)
    (w : World) (hp : P w) :
    match x.run w with
    | .ok a w' => Qok a w'
    | .error e w' => Qerr e w' := by
  apply EStateM.of_wp_run_eq (prog := x) (s := w) rfl
    (fun r => match r with | .ok a w' => Qok a w' | .error e w' => Qerr e w')
  simpa using h w hp

/-- C13-style: in every run, no op / sleeper request is issued after abort_if answered True. -/
theorem run_no_action_after_abort (cfg : Cfg) (answers : List Ans) :
    okTrace (finalWorld (run cfg answers)).trace = true := by
  have := adequacy (loop_inv cfg cfg.maxAttempts 1 {}) { answers := answers } (by simp [okTrace, abortedIn])
  unfold run finalWorld
  split <;> simp_all

#print axioms run_no_action_after_abort
end MvProto
