import Std.Do
import Std.Tactic.Do

open Std.Do

namespace MvProto

inductive EClass | permanent | transient | unknown
deriving DecidableEq, Repr

inductive Exn
  | ordinary (id : Nat) | abort | cancelled | kbd | stuck
deriving DecidableEq, Repr

inductive Ans
  | unit (dur : Nat)
  | opOk (v : Nat) (dur : Nat)
  | klass (k : EClass) (dur : Nat)
  | delay (d : Int) (dur : Nat)
  | bool (b : Bool)
  | raise (e : Exn) (dur : Nat)
deriving Repr

inductive Req
  | op (attempt : Nat) | classify (id : Nat) | strategy (attempt : Nat) (k : EClass)
  | sleeper (d : Int) | poll | metric (ev : String) (attempt : Nat)
deriving Repr, DecidableEq

structure World where
  answers : List Ans
  now : Nat := 0
  trace : List (Req × Ans) := []

abbrev M := EStateM Exn World

def durOf : Ans → Nat
  | .unit d | .opOk _ d | .klass _ d | .delay _ d | .raise _ d => d
  | .bool _ => 0

def isOpReq : Req → Bool
  | .op _ => true
  | _ => false

def opCount (w : World) : Nat := (w.trace.filter (fun p => isOpReq p.1)).length

def ask (r : Req) : M Ans := do
  let w ← get
  match w.answers with
  | [] => throw .stuck
  | a :: rest =>
    set { w with answers := rest, now := w.now + durOf a, trace := (r, a) :: w.trace }
    match a with
    | .raise e _ => throw e
    | _ => pure a

theorem ask_spec (r : Req) (n : Nat) :
    ⦃fun w => ⌜opCount w = n⌝⦄ ask r
    ⦃post⟨fun _ w => ⌜opCount w ≤ n + (if isOpReq r then 1 else 0)⌝,
          fun _ w => ⌜opCount w ≤ n + (if isOpReq r then 1 else 0)⌝⟩⦄ := by
  mvcgen [ask]
  all_goals simp_all [opCount, List.filter_cons]
  all_goals (split <;> simp_all <;> omega)


structure Cfg where
  maxAttempts : Nat
  maxUnknown : Nat

structure LState where
  unknown : Nat := 0

inductive Out | value (v : Nat) | failed (id : Nat)
deriving Repr

def isOrdinary : Exn → Bool
  | .ordinary _ => true
  | _ => false

/-- `try: hook(...) except Exception: pass` -/
def emit (ev : String) (attempt : Nat) : M Unit :=
  tryCatch (do let _ ← ask (.metric ev attempt); pure ())
    (fun e => if isOrdinary e then pure () else throw e)

def checkAbort : M Unit := do
  let a ← ask .poll
  match a with
  | .bool true => throw .abort
  | _ => pure ()

def classify (id : Nat) : M EClass := do
  let a ← ask (.classify id)
  match a with
  | .klass k _ => pure k
  | _ => pure .unknown

def strategy (i : Nat) (k : EClass) : M Int := do
  let a ← ask (.strategy i k)
  match a with
  | .delay d _ => pure d
  | _ => pure 0

def handleFailure (cfg : Cfg) (i : Nat) (st : LState) (id : Nat) : M (Option Out × LState) := do
  checkAbort
  let k ← classify id
  if k = .permanent then
    emit "permanent_fail" i
    pure (some (.failed id), st)
  else
    let st := if k = .unknown then { st with unknown := st.unknown + 1 } else st
    if k = .unknown ∧ st.unknown > cfg.maxUnknown then
      emit "max_unknown" i
      pure (some (.failed id), st)
    else if i ≥ cfg.maxAttempts then
      emit "max_attempts" i
      pure (some (.failed id), st)
    else
      let d ← strategy i k
      emit "retry" i
      checkAbort
      let _ ← ask (.sleeper (max 0 d))
      pure (none, st)

def invoke (i : Nat) : M Nat := do
  let a ← ask (.op i)
  match a with
  | .opOk v _ => pure v
  | _ => throw (.ordinary 0)

def attempt (cfg : Cfg) (i : Nat) (st : LState) : M (Option Out × LState) := do
  checkAbort
  tryCatch
    (do let v ← invoke i
        emit "success" i
        pure (some (.value v), st))
    (fun e => match e with
      | .ordinary id => handleFailure cfg i st id
      | e => throw e)

def loop (cfg : Cfg) : (fuel : Nat) → (i : Nat) → LState → M Out
  | 0, _, _ => throw (.ordinary 999)
  | fuel + 1, i, st => do
    let r ← attempt cfg i st
    match r with
    | (some out, _) => pure out
    | (none, st') => loop cfg fuel (i + 1) st'

/-- Postcondition shape used everywhere: op count bounded, both on return and on raise. -/
abbrev bounded (b : Nat) : PostCond α (.except Exn (.arg World .pure)) :=
  post⟨fun _ w => ⌜opCount w ≤ b⌝, fun _ w => ⌜opCount w ≤ b⌝⟩

@[spec] theorem ask_spec' (r : Req) (n : Nat) :
    ⦃fun w => ⌜opCount w ≤ n⌝⦄ ask r ⦃bounded (n + (if isOpReq r then 1 else 0))⦄ := by
  mvcgen [ask]
  all_goals simp_all [opCount, List.filter_cons]
  all_goals (try split) <;> (try simp_all) <;> omega

@[simp] theorem restore_dummy (s : World) (d : PUnit) : EStateM.Backtrackable.restore s d = s := rfl
macro "close_vcs" : tactic => `(tactic| all_goals (first | omega | (simp_all [isOpReq] <;> omega) | (intros; simp_all [isOpReq]; try omega)))

@[spec] theorem emit_spec (ev : String) (i n : Nat) :
    ⦃fun w => ⌜opCount w ≤ n⌝⦄ emit ev i ⦃bounded n⦄ := by
  mvcgen [emit]
  close_vcs

@[spec] theorem checkAbort_spec (n : Nat) :
    ⦃fun w => ⌜opCount w ≤ n⌝⦄ checkAbort ⦃bounded n⦄ := by
  mvcgen [checkAbort]
  close_vcs

@[spec] theorem classify_spec (id n : Nat) :
    ⦃fun w => ⌜opCount w ≤ n⌝⦄ classify id ⦃bounded n⦄ := by
  mvcgen [classify]
  close_vcs

@[spec] theorem strategy_spec (i : Nat) (k : EClass) (n : Nat) :
    ⦃fun w => ⌜opCount w ≤ n⌝⦄ strategy i k ⦃bounded n⦄ := by
  mvcgen [strategy]
  close_vcs

@[spec] theorem invoke_spec (i n : Nat) :
    ⦃fun w => ⌜opCount w ≤ n⌝⦄ invoke i ⦃bounded (n + 1)⦄ := by
  mvcgen [invoke]
  close_vcs

@[spec] theorem handleFailure_spec (cfg : Cfg) (i : Nat) (st : LState) (id n : Nat) :
    ⦃fun w => ⌜opCount w ≤ n⌝⦄ handleFailure cfg i st id ⦃bounded n⦄ := by
  mvcgen [handleFailure]
  close_vcs

@[spec] theorem attempt_spec (cfg : Cfg) (i : Nat) (st : LState) (n : Nat) :
    ⦃fun w => ⌜opCount w ≤ n⌝⦄ attempt cfg i st ⦃bounded (n + 1)⦄ := by
  mvcgen [attempt]
  close_vcs

theorem loop_spec (cfg : Cfg) : ∀ fuel i st n,
    ⦃fun w => ⌜opCount w ≤ n⌝⦄ loop cfg fuel i st ⦃bounded (n + fuel)⦄ := by
  intro fuel
  induction fuel with
  | zero => intro i st n; mvcgen [loop]
  | succ f ih =>
    intro i st n
    mvcgen [loop, ih]
    close_vcs

def run (cfg : Cfg) (answers : List Ans) : EStateM.Result Exn World Out :=
  (loop cfg cfg.maxAttempts 1 {}).run { answers := answers }

def finalWorld : EStateM.Result Exn World α → World
  | .ok _ w => w
  | .error _ w => w

theorem run_op_bound (cfg : Cfg) (answers : List Ans) :
    opCount (finalWorld (run cfg answers)) ≤ cfg.maxAttempts := by
  apply EStateM.of_wp_run_eq (prog := loop cfg cfg.maxAttempts 1 {}) (s := { answers := answers }) rfl
    (fun r => opCount (finalWorld r) ≤ cfg.maxAttempts)
  have h := loop_spec cfg cfg.maxAttempts 1 {} 0
  have := h { answers := answers } (by simp [opCount])
  simpa [finalWorld] using this

#print axioms run_op_bound
#eval (run { maxAttempts := 3, maxUnknown := 1 }
  [.bool false, .raise (.ordinary 7) 5, .bool false, .klass .transient 0, .delay 4 0, .raise (.ordinary 1) 0, .bool false,
   .unit 4, .bool false, .opOk 42 1, .unit 0]) |> fun r => match r with | .ok o w => (repr o, w.now, w.trace.length) | .error e w => (repr e, w.now, w.trace.length)

end MvProto
