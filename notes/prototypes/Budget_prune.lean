/-! Scratch prototype: Budget model + sliding-window theorem (calibration only). -/

namespace BudgetProto

structure Cfg where
  maxRetries : Nat
  window : Int          -- > 0, in clock ticks

/-- `events` mirrors the deque: oldest first. -/
structure St where
  events : List Int
deriving Repr, DecidableEq

/-- `while events and events[0] <= cutoff: popleft()` -/
def prune (cutoff : Int) : List Int → List Int
  | [] => []
  | e :: es => if e ≤ cutoff then prune cutoff es else e :: es

def consume (c : Cfg) (s : St) (now : Int) (cost : Nat) : St × Bool :=
  let ev := prune (now - c.window) s.events
  if ev.length + cost > c.maxRetries then ({ events := ev }, false)
  else ({ events := ev ++ List.replicate cost now }, true)

def remaining (c : Cfg) (s : St) (now : Int) : St × Nat :=
  let ev := prune (now - c.window) s.events
  ({ events := ev }, c.maxRetries - ev.length)

/-- A history is a list of (now, cost) consume calls; we collect the grants. -/
def runGrants (c : Cfg) : St → List (Int × Nat) → List Int
  | _, [] => []
  | s, (now, cost) :: rest =>
    let (s', ok) := consume c s now cost
    (if ok then List.replicate cost now else []) ++ runGrants c s' rest

theorem prune_sorted_eq_filter (cutoff : Int) (l : List Int) (h : l.Pairwise (· ≤ ·)) :
    prune cutoff l = l.filter (fun e => cutoff < e) := by
  induction l with
  | nil => simp [prune]
  | cons e es ih =>
    have hes := (List.pairwise_cons.mp h).2
    have he := (List.pairwise_cons.mp h).1
    simp only [prune]
    split
    · rename_i hle
      rw [ih hes]
      simp [List.filter_cons, Int.not_lt.mpr hle]
    · rename_i hgt
      have : cutoff < e := by omega
      have hall : ∀ x ∈ es, cutoff < x := fun x hx => by have := he x hx; omega
      simp [List.filter_cons, this]
      exact (List.filter_eq_self.mpr (by simpa using hall)).symm

end BudgetProto
