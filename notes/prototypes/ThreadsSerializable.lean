/-! Scratch prototype for C17: one-mutex thread calculus; fine-grained interleavings of well-locked
    programs are simulated by the coarse semantics in which every critical section is one atomic step. -/

namespace Thr

variable {L S : Type}

inductive Instr (L S : Type)
  | loc (f : L → L)
  | acq
  | rel
  | sh (f : L → S → L × S)

structure TState (L S : Type) where
  loc : L
  code : List (Instr L S)

structure Conf (L S : Type) where
  threads : Nat → TState L S
  shared : S
  holder : Option Nat

def upd (f : Nat → α) (i : Nat) (v : α) : Nat → α := fun j => if j = i then v else f j

@[simp] theorem upd_same (f : Nat → α) (i : Nat) (v : α) : upd f i v i = v := by simp [upd]
@[simp] theorem upd_other (f : Nat → α) (i j : Nat) (v : α) (h : j ≠ i) : upd f i v j = f j := by simp [upd, h]

/-- fine-grained step of thread `i`; `sh` is enabled whether or not the lock is held. -/
def step (c : Conf L S) (i : Nat) : Option (Conf L S) :=
  match (c.threads i).code with
  | [] => none
  | .loc f :: r => some { c with threads := upd c.threads i ⟨f (c.threads i).loc, r⟩ }
  | .acq :: r =>
    if c.holder = none then some { c with threads := upd c.threads i ⟨(c.threads i).loc, r⟩, holder := some i }
    else none
  | .rel :: r =>
    if c.holder = some i then some { c with threads := upd c.threads i ⟨(c.threads i).loc, r⟩, holder := none }
    else none
  | .sh f :: r =>
    let p := f (c.threads i).loc c.shared
    some { c with threads := upd c.threads i ⟨p.1, r⟩, shared := p.2 }

def exec (c : Conf L S) : List Nat → Option (Conf L S)
  | [] => some c
  | i :: is => (step c i).bind (fun c' => exec c' is)

/-- run the rest of a critical section: up to and including the first `rel`. -/
def finish : L → S → List (Instr L S) → L × S × List (Instr L S)
  | l, s, [] => (l, s, [])
  | l, s, .loc f :: r => finish (f l) s r
  | l, s, .sh f :: r => finish (f l s).1 (f l s).2 r
  | l, s, .rel :: r => (l, s, r)
  | l, s, .acq :: r => (l, s, .acq :: r)

/-- coarse step: a local step outside a critical section, or a whole critical section at once. -/
def astep (c : Conf L S) (i : Nat) : Option (Conf L S) :=
  match (c.threads i).code with
  | .loc f :: r => some { c with threads := upd c.threads i ⟨f (c.threads i).loc, r⟩ }
  | .acq :: r =>
    if c.holder = none then
      let p := finish (c.threads i).loc c.shared r
      some { c with threads := upd c.threads i ⟨p.1, p.2.2⟩, shared := p.2.1 }
    else none
  | _ => none

def aexec (c : Conf L S) : List Nat → Option (Conf L S)
  | [] => some c
  | i :: is => (astep c i).bind (fun c' => aexec c' is)

/-- lock discipline of one thread's remaining code, given whether it currently holds the lock -/
def wl : Bool → List (Instr L S) → Bool
  | h, [] => !h
  | h, .loc _ :: r => wl h r
  | h, .acq :: r => !h && wl true r
  | h, .rel :: r => h && wl false r
  | h, .sh _ :: r => h && wl true r

def WL (c : Conf L S) : Prop := ∀ i, wl (c.holder == some i) (c.threads i).code = true

def Terminal (c : Conf L S) : Prop := ∀ i, (c.threads i).code = []

/-- the coarse configuration a fine configuration stands for: the holder's section completed -/
def complete (c : Conf L S) : Conf L S :=
  match c.holder with
  | none => c
  | some i =>
    let p := finish (c.threads i).loc c.shared (c.threads i).code
    { threads := upd c.threads i ⟨p.1, p.2.2⟩, shared := p.2.1, holder := none }


theorem upd_upd (f : Nat → α) (i : Nat) (v w : α) : upd (upd f i v) i w = upd f i w := by
  funext j; by_cases h : j = i <;> simp [upd, h]

theorem upd_comm (f : Nat → α) (i j : Nat) (v w : α) (h : i ≠ j) :
    upd (upd f i v) j w = upd (upd f j w) i v := by
  funext k
  by_cases h1 : k = i <;> by_cases h2 : k = j <;> simp_all [upd]

theorem Conf.ext' {a b : Conf L S} (h1 : a.threads = b.threads) (h2 : a.shared = b.shared)
    (h3 : a.holder = b.holder) : a = b := by
  cases a; cases b; simp_all

/-- One fine step of a well-locked configuration is either absorbed by `complete` (a step inside the
    holder's critical section) or is exactly one coarse step between the completed configurations. -/
theorem sim_step (c c' : Conf L S) (i : Nat) (hwl : WL c) (hs : step c i = some c') :
    complete c' = complete c ∨ astep (complete c) i = some (complete c') := by
  have hwi := hwl i
  unfold step at hs
  cases hh : c.holder with
  | none =>
    have hc : complete c = c := by simp [complete, hh]
    rw [hc]
    cases hcode : (c.threads i).code with
    | nil => simp [hcode] at hs
    | cons ins r =>
      cases ins with
      | loc f =>
        simp [hcode] at hs
        right
        subst hs
        simp [astep, hcode, complete, hh]
      | acq =>
        simp [hcode, hh] at hs
        right
        subst hs
        simp [astep, hcode, hh, complete, upd_upd]
      | rel => simp [hcode, hh] at hs
      | sh f => simp [hcode, hh, wl] at hwi
  | some h =>
    by_cases hih : i = h
    · subst hih
      left
      cases hcode : (c.threads i).code with
      | nil => simp [hcode] at hs
      | cons ins r =>
        cases ins with
        | loc f =>
          simp [hcode] at hs
          subst hs
          simp [complete, hh, hcode, finish, upd_upd]
        | acq => simp [hcode, hh] at hs
        | rel =>
          simp [hcode, hh] at hs
          subst hs
          simp [complete, hh, hcode, finish]
        | sh f =>
          simp [hcode] at hs
          subst hs
          simp [complete, hh, hcode, finish, upd_upd]
    · right
      have hne : (c.holder == some i) = false := by simp [hh]; exact fun e => hih e.symm
      rw [hne] at hwi
      cases hcode : (c.threads i).code with
      | nil => simp [hcode] at hs
      | cons ins r =>
        cases ins with
        | loc f =>
          simp [hcode] at hs
          subst hs
          have : (complete c).threads i = c.threads i := by simp [complete, hh, upd, hih]
          have hhi : ¬ h = i := fun e => hih e.symm
          simp [astep, complete, hh, hih, hhi, hcode, upd_other]
          exact upd_comm _ _ _ _ _ hhi
        | acq => simp [hcode, hh] at hs
        | rel =>
          simp [hcode, hh] at hs
          exact absurd hs.1.symm hih
        | sh f => simp [hcode, wl] at hwi


theorem wl_step (c c' : Conf L S) (i : Nat) (hwl : WL c) (hs : step c i = some c') : WL c' := by
  intro j
  have hwi := hwl i
  have hwj := hwl j
  unfold step at hs
  cases hcode : (c.threads i).code with
  | nil => simp [hcode] at hs
  | cons ins r =>
    rw [hcode] at hwi
    cases ins with
    | loc f =>
      simp [hcode] at hs; subst hs
      by_cases hj : j = i
      · subst hj; simpa [wl] using hwi
      · simpa [upd, hj] using hwj
    | acq =>
      by_cases hn : c.holder = none
      · simp [hcode, hn] at hs; subst hs
        by_cases hj : j = i
        · subst hj; simp [wl, hn] at hwi; simpa using hwi
        · have : (some i == some j) = false := by simp; exact fun e => hj e.symm
          simp [upd, hj, this]
          simpa [hn] using hwj
      · simp [hcode, hn] at hs
    | rel =>
      by_cases hn : c.holder = some i
      · simp [hcode, hn] at hs; subst hs
        by_cases hj : j = i
        · subst hj; simp [wl, hn] at hwi; simpa using hwi
        · have : (some i == some j) = false := by simp; exact fun e => hj e.symm
          simp [upd, hj]
          simpa [hn, this] using hwj
      · simp [hcode, hn] at hs
    | sh f =>
      simp [hcode] at hs; subst hs
      by_cases hj : j = i
      · subst hj; simp [wl] at hwi; simp [hwi.1]; exact hwi.2
      · simpa [upd, hj] using hwj

theorem wl_exec (sched : List Nat) : ∀ (c cf : Conf L S), WL c → exec c sched = some cf → WL cf := by
  induction sched with
  | nil => intro c cf hw he; simp [exec] at he; subst he; exact hw
  | cons j js ih =>
    intro c cf hw he
    simp only [exec] at he
    cases hs : step c j with
    | none => simp [hs] at he
    | some c' => simp [hs] at he; exact ih c' cf (wl_step c c' j hw hs) he

/-- Every fine-grained execution of a well-locked program is matched by a coarse execution in which
    each critical section is a single atomic step (in lock-acquisition order). -/
theorem simulate (sched : List Nat) : ∀ (c cf : Conf L S), WL c → exec c sched = some cf →
    ∃ sched', aexec (complete c) sched' = some (complete cf) := by
  induction sched with
  | nil => intro c cf _ h; simp [exec] at h; subst h; exact ⟨[], rfl⟩
  | cons i is ih =>
    intro c cf hwl h
    simp only [exec] at h
    cases hs : step c i with
    | none => simp [hs] at h
    | some c' =>
      simp [hs] at h
      obtain ⟨sched', hsched'⟩ := ih c' cf (wl_step c c' i hwl hs) h
      rcases sim_step c c' i hwl hs with heq | hstep
      · exact ⟨sched', by rw [← heq]; exact hsched'⟩
      · exact ⟨i :: sched', by simp [aexec, hstep, hsched']⟩

theorem terminal_holder_none (c : Conf L S) (hwl : WL c) (ht : Terminal c) : c.holder = none := by
  cases hh : c.holder with
  | none => rfl
  | some h =>
    have := hwl h
    simp [ht h, hh, wl] at this

/-- C17 (atomicity): a well-locked program started with the lock free: any complete interleaving ends
    in a configuration that the coarse (critical-sections-are-atomic) semantics also reaches. -/
theorem serializable (c cf : Conf L S) (sched : List Nat) (hwl : WL c) (h0 : c.holder = none)
    (hexec : exec c sched = some cf) (hterm : Terminal cf) :
    ∃ sched', aexec c sched' = some cf := by
  obtain ⟨sched', h⟩ := simulate sched c cf hwl hexec
  have hwlf : WL cf := wl_exec sched c cf hwl hexec
  have hf : complete cf = cf := by simp [complete, terminal_holder_none cf hwlf hterm]
  have hc : complete c = c := by simp [complete, h0]
  exact ⟨sched', by rw [← hc, ← hf]; exact h⟩

/-- C17 (no deadlock): a well-locked, unfinished configuration always has an enabled thread. -/
theorem deadlock_free (c : Conf L S) (hwl : WL c) (hnt : ¬ Terminal c) : ∃ i, (step c i).isSome = true := by
  cases hh : c.holder with
  | some h =>
    refine ⟨h, ?_⟩
    have hw := hwl h
    simp [hh] at hw
    unfold step
    cases hcode : (c.threads h).code with
    | nil => simp [hcode, wl] at hw
    | cons ins r => cases ins <;> simp_all [wl]
  | none =>
    have : ∃ i, (c.threads i).code ≠ [] := by
      by_cases hx : ∃ i, (c.threads i).code ≠ []
      · exact hx
      · exact absurd (fun i => by simpa using (not_exists.mp hx i)) hnt
    obtain ⟨i, hi⟩ := this
    refine ⟨i, ?_⟩
    have hw := hwl i
    simp [hh] at hw
    unfold step
    cases hcode : (c.threads i).code with
    | nil => exact absurd hcode hi
    | cons ins r => cases ins <;> simp_all [wl]

#print axioms serializable
#print axioms deadlock_free

/-! What the extractor will emit: only the lock structure matters for the obligation. -/
def idL : Instr Unit Unit := .loc id
def shU : Instr Unit Unit := .sh (fun l s => (l, s))

/-- `CircuitBreaker.allow`: `now = self._clock()` ; `with self._lock:` … -/
def allowShape : List (Instr Unit Unit) := [idL, .acq, shU, shU, shU, .rel]
/-- what a mutant that drops `with self._lock` from `record_cancel` would extract to -/
def recordCancelMutant : List (Instr Unit Unit) := [shU, shU]

example : wl false allowShape = true := by decide
example : wl false recordCancelMutant = false := by decide
end Thr
