import Mathlib.Tactic.Linarith
import Mathlib.Tactic.Positivity

namespace Strat
def uniform (a b u : ℚ) : ℚ := a + (b - a) * u
def equalJitter (base maxS : ℚ) (attempt : ℕ) (u : ℚ) : ℚ :=
  let cap := min maxS (base * 2 ^ attempt)
  cap / 2 + uniform 0 (cap / 2) u
def decorrelated (base maxS prev u : ℚ) : ℚ :=
  let p := if prev = 0 then base else prev
  min maxS (uniform base (p * 3) u)

theorem equal_jitter_envelope (base maxS : ℚ) (attempt : ℕ) (u : ℚ)
    (hb : 0 ≤ base) (hm : base ≤ maxS) (hu0 : 0 ≤ u) (hu1 : u ≤ 1) :
    let cap := min maxS (base * 2 ^ attempt)
    cap / 2 ≤ equalJitter base maxS attempt u ∧ equalJitter base maxS attempt u ≤ cap := by
  intro cap
  have hcap : 0 ≤ cap := le_min (le_trans hb hm) (by positivity)
  simp only [equalJitter, uniform]
  constructor <;> nlinarith [mul_nonneg hcap hu0, mul_le_mul_of_nonneg_left hu1 hcap]

theorem decorrelated_in_range (base maxS prev u : ℚ)
    (hb : 0 ≤ base) (hm : base ≤ maxS) (hp : 0 ≤ prev) (hu0 : 0 ≤ u) (hu1 : u ≤ 1) :
    0 ≤ decorrelated base maxS prev u ∧ decorrelated base maxS prev u ≤ maxS := by
  simp only [decorrelated, uniform]
  refine ⟨le_min (le_trans hb hm) ?_, min_le_left _ _⟩
  split <;> nlinarith [mul_nonneg hb hu0, mul_nonneg hp hu0, mul_nonneg hb (sub_nonneg.mpr hu1)]
#print axioms equal_jitter_envelope
end Strat
